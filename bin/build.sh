#!/bin/sh
# usage: build.sh <outdir> <asan|tsan> <lib|cli>
# Compiles /repo's current working tree (library, and tools/asmline.c for "cli") and links it with
# the harness objects into <outdir>/alsim.  Nothing prebuilt from /repo is used.
set -e
OUT="$1"; SAN="$2"; WHAT="$3"
V=$(cd "$(dirname "$0")/.." && pwd)
REPO=${VERIF_REPO:-/repo}
mkdir -p "$OUT"
# harness objects: built here unless the caller points at a frozen copy (scratch runs against other trees)
if [ -n "$VERIF_HARNESS" ]; then HARNESS="$VERIF_HARNESS"; else
  HARNESS=$V/build/harness
  make -s -C $V harness >"$OUT/harness.log" 2>&1 || { cat "$OUT/harness.log"; exit 2; }
fi
if [ "$SAN" = tsan ]; then SANFLAGS="-fsanitize=thread"; DEF="-DSIM_TSAN=1"; else SANFLAGS="-fsanitize=address"; DEF=""; fi
CFLAGS="-O1 -g -std=gnu99 -I$REPO/src -U_FORTIFY_SOURCE -D_FORTIFY_SOURCE=0 -fno-omit-frame-pointer $SANFLAGS -fsanitize-coverage=trace-pc-guard -w"
pids=""
for f in $REPO/src/*.c; do
  o="$OUT/lib_$(basename "$f" .c).o"
  clang $CFLAGS -c "$f" -o "$o" 2>"$o.log" &
  pids="$pids $!"
done
CLIDEF=""
if [ "$WHAT" = cli ]; then
  CLIDEF="-DWITH_ASMLINE=1"
  clang $CFLAGS -Dmain=asmline_main -c $REPO/tools/asmline.c -o "$OUT/cli_asmline.o" 2>"$OUT/cli_asmline.o.log" &
  pids="$pids $!"
fi
clang++ -std=c++17 -O1 -g -I$V/sim -I$REPO/src $SANFLAGS $DEF $CLIDEF -w -c $V/sim/libcall.cc -o "$OUT/libcall.o" 2>"$OUT/libcall.o.log" &
pids="$pids $!"
fail=0
for p in $pids; do wait $p || fail=1; done
if [ $fail != 0 ]; then cat "$OUT"/*.log | head -50; echo "BUILD-FAILED: /repo does not compile"; exit 2; fi
WRAP="-Wl,--wrap=malloc,--wrap=calloc,--wrap=realloc,--wrap=reallocarray,--wrap=free,--wrap=mmap,--wrap=mremap,--wrap=munmap,--wrap=open,--wrap=fstat,--wrap=fileno,--wrap=isatty,--wrap=lseek,--wrap=fdopen,--wrap=stat,--wrap=lstat,--wrap=fsync,--wrap=fdatasync,--wrap=flock,--wrap=rename,--wrap=unlink,--wrap=close,--wrap=read,--wrap=write,--wrap=fopen,--wrap=fwrite,--wrap=fclose,--wrap=exit,--wrap=pthread_once,--wrap=pthread_mutex_lock,--wrap=time,--wrap=strtok,--wrap=strtok_r,--wrap=strncpy,--wrap=strcpy,--wrap=strcat,--wrap=strstr,--wrap=strchr,--wrap=strrchr,--wrap=strcmp,--wrap=strncmp,--wrap=strcasecmp,--wrap=strncasecmp,--wrap=strlen,--wrap=strtoul,--wrap=strtol,--wrap=strtoull,--wrap=atoi,--wrap=rand,--wrap=strerror,--wrap=getenv,--wrap=localtime,--wrap=gmtime,--wrap=setlocale,--wrap=memchr"
OBJS="$OUT/lib_*.o $OUT/libcall.o"
[ "$WHAT" = cli ] && OBJS="$OBJS $OUT/cli_asmline.o"
clang++ $SANFLAGS $WRAP $HARNESS/$SAN/*.o $OBJS -lpthread -o "$OUT/alsim" 2>"$OUT/link.log" || { cat "$OUT/link.log" | head -40; echo "BUILD-FAILED: link"; exit 2; }
echo "built $OUT/alsim"
