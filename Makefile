# Builds the harness objects (everything that does not depend on /repo).  The per-check build
# (bin/build.sh) compiles /repo/src/*.c, sim/libcall.cc and, for C20, /repo/tools/asmline.c from
# the current working tree and links them with these objects.
CXX      := clang++
CC       := clang
B        := build/harness
HSRC     := simos model corpus plan gen gen2 runner main canary
CXXFLAGS := -std=c++17 -O1 -g -Wall -Wextra -Wno-unused-parameter -Isim -U_FORTIFY_SOURCE -D_FORTIFY_SOURCE=0

ASAN_OBJS := $(addprefix $(B)/asan/,$(addsuffix .o,$(HSRC))) $(B)/asan/sched.o
TSAN_OBJS := $(addprefix $(B)/tsan/,$(addsuffix .o,$(HSRC))) $(B)/tsan/sched.o

all: harness
harness: $(ASAN_OBJS) $(TSAN_OBJS)

$(B)/asan/%.o: sim/%.cc $(wildcard sim/*.h) sim/corpus_harvested.inc sim/cli_proc.inc
	@mkdir -p $(dir $@)
	$(CXX) $(CXXFLAGS) -fsanitize=address -c $< -o $@
# the TSan build of the harness is NOT instrumented: only the library is (see DESIGN 4.3)
$(B)/tsan/%.o: sim/%.cc $(wildcard sim/*.h) sim/corpus_harvested.inc sim/cli_proc.inc
	@mkdir -p $(dir $@)
	$(CXX) $(CXXFLAGS) -DSIM_TSAN=1 -c $< -o $@
$(B)/asan/sched.o $(B)/tsan/sched.o: sim/sched.c
	@mkdir -p $(dir $@)
	$(CC) -O2 -g -c $< -o $@

clean:
	rm -rf build
.PHONY: all harness clean
