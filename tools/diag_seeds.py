#!/usr/bin/env python3
"""Detection reliability: every seeded change against the check of its own property, quick tier,
for several VERIF_SEED values.  usage: diag_seeds.py [seed ...]  -> seeded/RELIABILITY.md"""
import json, os, re, subprocess, sys
V = os.path.dirname(os.path.dirname(os.path.abspath(__file__)))
def main():
    seeds = sys.argv[1:] or ['2', '3']
    sd = os.path.join(V, 'seeded')
    rows = []
    for d in sorted(os.listdir(sd)):
        mp = os.path.join(sd, d, 'meta.json')
        if not os.path.exists(mp):
            continue
        meta = json.load(open(mp))
        prop = meta.get('reported_by', meta['property'])
        if prop == 'none':
            continue  # documented bound of the simulation (DESIGN 11)  # differs for changes outside their property's subject or quantifier (see meta.json)
        res = []
        for s in seeds:
            env = dict(os.environ, VERIF_SEED=s)
            r = subprocess.run([os.path.join(V, 'tools', 'try_mutant.py'), os.path.join(sd, d, 'patch.diff'), prop], stdout=subprocess.PIPE, stderr=subprocess.STDOUT, text=True, env=env)
            m = re.search(r'== %s exit=(\d+) \((\d+)s\)' % prop, r.stdout)
            res.append((s, int(m.group(1)) if m else -1, int(m.group(2)) if m else -1))
        rows.append((d, prop, res))
        print(d, prop, res, flush=True)
    with open(os.path.join(sd, 'RELIABILITY.md'), 'w') as f:
        f.write('# Detection reliability of the quick tier across seeds\n\nEvery seeded change against the check that reports it (`reported_by` in its meta.json: the check of its own property, except for tool-only, fault-only and concurrency-only changes) (`bin/check <property>` quick tier, full budget) for VERIF_SEED = %s.\n1 = VIOLATION reported, 0 = missed with this seed, 2 = infrastructure problem.\n\n' % ', '.join(seeds))
        f.write('| seeded change | check | ' + ' | '.join('seed ' + s for s in seeds) + ' |\n|---|---|' + '---|' * len(seeds) + '\n')
        for d, prop, res in rows:
            f.write('| %s | %s | ' % (d, prop) + ' | '.join(str(x[1]) for x in res) + ' |\n')
        tot = sum(len(r[2]) for r in rows); hit = sum(1 for r in rows for x in r[2] if x[1] == 1)
        f.write('\n%d of %d runs report the violation.\n' % (hit, tot))
main()
