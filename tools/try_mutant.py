#!/usr/bin/env python3
"""Run checks against a scratch worktree of /repo with a patch applied (nothing is written to /repo,
evidence/ or replays/).   usage: try_mutant.py <patch.diff|-R:commit> <P1,P2,...> [--cases N] [--tier quick]"""
import os, subprocess, sys, shutil, time
V = os.path.dirname(os.path.dirname(os.path.abspath(__file__)))
def main():
    patch, props = sys.argv[1], sys.argv[2].split(',')
    extra = sys.argv[3:]
    wt = '/tmp/trym-%d' % os.getpid()
    subprocess.check_call(['git', '-C', '/repo', 'worktree', 'add', '-q', '--detach', wt, 'HEAD'])
    rc_all = {}
    try:
        if patch.startswith('-R:'):
            subprocess.check_call(['git', '-C', wt, 'revert', '--no-commit', patch[3:]], stdout=subprocess.DEVNULL)
        else:
            subprocess.check_call(['git', '-C', wt, 'apply', os.path.abspath(patch)])
        # freeze the harness objects so that edits/rebuilds in /verif/sim do not disturb this run
        subprocess.check_call(['make', '-s', '-C', V, 'harness'], stdout=subprocess.DEVNULL)
        frozen = os.path.join(V, 'build', 'harness-mut%d' % os.getpid())
        shutil.copytree(os.path.join(V, 'build', 'harness'), frozen)
        env = dict(os.environ, VERIF_REPO=wt, VERIF_TAG='mut%d' % os.getpid(), VERIF_HARNESS=frozen)
        for p in props:
            t0 = time.time()
            r = subprocess.run([os.path.join(V, 'bin', 'check'), p] + extra, stdout=subprocess.PIPE, stderr=subprocess.STDOUT, text=True, env=env)
            lines = [l for l in r.stdout.splitlines() if l.startswith(('VIOLATION', 'KNOWN', 'INFRA', '  class', p + ' '))]
            print('== %s exit=%d (%.0fs)' % (p, r.returncode, time.time() - t0))
            for l in lines[:8]:
                print('   ' + l[:260])
            rc_all[p] = r.returncode
            for t in ('quick', 'thorough'):
                shutil.rmtree(os.path.join(V, 'build', '%s-%s-%s' % (p, t, env['VERIF_TAG'])), ignore_errors=True)
                shutil.rmtree(os.path.join(V, 'build', '%s-%s-%s-tsan' % (p, t, env['VERIF_TAG'])), ignore_errors=True)
    finally:
        shutil.rmtree(os.path.join(V, 'build', 'harness-mut%d' % os.getpid()), ignore_errors=True)
        subprocess.call(['git', '-C', '/repo', 'worktree', 'remove', '--force', wt])
    print('SUMMARY', ' '.join('%s=%d' % kv for kv in rc_all.items()))
main()
