#!/usr/bin/env python3
"""Confirm a seeded change independently, then run the checks against it.
usage: verify_seed.py <prop> <seed-dir> <seed-id> [check-props] [--cases N]
  seed-dir holds patch.diff, demo.c|demo.sh, NOTES.md (as delivered by a sub-agent).
Steps (all in a fresh scratch worktree of /repo HEAD, removed afterwards):
  1. unchanged tree: build, demo must pass
  2. patch applied: build, `make check` PASS count must be 96, demo must fail
  3. bin/check for the property (and optionally neighbours) against the patched tree
Writes /verif/seeded/<seed-id>/{patch.diff,demo.*,NOTES.md,meta.json}."""
import json, os, re, shutil, subprocess, sys, time
V = os.path.dirname(os.path.dirname(os.path.abspath(__file__)))
def run(cmd, cwd=None, shell=False, timeout=3600):
    r = subprocess.run(cmd, cwd=cwd, shell=shell, stdout=subprocess.PIPE, stderr=subprocess.STDOUT, text=True, timeout=timeout)
    return r.returncode, r.stdout
def main():
    prop, sdir, sid = sys.argv[1:4]
    rest = sys.argv[4:]
    checks = [prop]
    extra = []
    if rest and not rest[0].startswith('--'):
        checks = rest[0].split(',')
        rest = rest[1:]
    extra = rest
    wt = '/tmp/vs-%s-%d' % (sid, os.getpid())
    rc, out = run([os.path.join(V, 'tools', 'mkwt.sh'), wt])
    assert rc == 0, out
    meta = {'seed_id': sid, 'property': prop, 'repo_head': subprocess.check_output(['git', '-C', '/repo', 'rev-parse', '--short', 'HEAD'], text=True).strip()}
    try:
        os.makedirs(os.path.join(wt, '_seed'), exist_ok=True)
        demo = None
        for f in os.listdir(sdir):
            if f.startswith('demo') and (f.endswith('.c') or f.endswith('.sh')):
                shutil.copy(os.path.join(sdir, f), os.path.join(wt, '_seed', f))
                if f in ('demo.c', 'demo.sh'):
                    demo = f
            elif f in ('patch.diff', 'NOTES.md'):
                shutil.copy(os.path.join(sdir, f), os.path.join(wt, '_seed', f))
        assert demo, 'no demo'
        head = open(os.path.join(wt, '_seed', demo)).read().split('\n')[:40]
        if demo.endswith('.c'):
            cmdline = None
            for l in head:
                m = re.search(r'((?:cc|gcc|clang)\s.*)', l)
                if m:
                    cmdline = m.group(1).strip().rstrip('*/').strip()
                    break
            assert cmdline, 'no build command in demo.c'
        else:
            cmdline = 'bash _seed/demo.sh'
        cmdline = re.sub(r'/tmp/mut\d*/C\d+', wt, cmdline)
        meta['demo_cmd'] = cmdline
        def demo_run():
            return run(cmdline, cwd=wt, shell=True, timeout=600)
        rc, out = run('make -j8', cwd=wt, shell=True)
        rc0, out0 = demo_run()
        meta['demo_unchanged'] = {'exit': rc0, 'tail': out0[-300:]}
        rc, out = run(['git', 'apply', '_seed/patch.diff'], cwd=wt)
        assert rc == 0, 'patch does not apply: ' + out
        rc, out = run('make -j8 2>&1 | tail -5', cwd=wt, shell=True)
        rc, out = run('make check -j8 2>&1 | grep -E "^# (PASS|FAIL|TOTAL)"', cwd=wt, shell=True)
        m = re.search(r'# PASS:\s+(\d+)', out)
        meta['make_check_pass_with_change'] = int(m.group(1)) if m else -1
        rc1, out1 = demo_run()
        meta['demo_with_change'] = {'exit': rc1, 'tail': out1[-300:]}
        confirmed = rc0 == 0 and rc1 != 0 and meta['make_check_pass_with_change'] == 96
        if rc0 == 0 and rc1 == 0 and 'FAIL' in out1 and 'FAIL' not in out0:
            confirmed = meta['make_check_pass_with_change'] == 96
        meta['confirmed'] = confirmed
        print('confirmed=%s demo unchanged exit=%d, with change exit=%d, make check PASS=%d' % (confirmed, rc0, rc1, meta['make_check_pass_with_change']))
        # checks against the patched tree
        subprocess.call(['git', '-C', wt, 'checkout', '-q', '--', 'src', 'tools'])
        results = {}
        patch = os.path.join(wt, '_seed', 'patch.diff')
        rc, out = run([os.path.join(V, 'tools', 'try_mutant.py'), patch, ','.join(checks)] + extra)
        print(out)
        for m in re.finditer(r'== (C\d+) exit=(\d+)', out):
            results[m.group(1)] = int(m.group(2))
        viol = re.findall(r'class=([^:]+): (.*)', out)
        meta['checks_run'] = results
        meta['violation_classes'] = ['%s: %s' % v for v in viol][:6]
        meta['what_ran'] = 'tools/verify_seed.py: demo on unchanged and patched scratch worktree, make check on patched worktree, then bin/check %s with VERIF_REPO pointing at the patched worktree (%s)' % (','.join(checks), ' '.join(extra) or 'quick budgets')
        dst = os.path.join(V, 'seeded', sid)
        os.makedirs(dst, exist_ok=True)
        for f in os.listdir(os.path.join(wt, '_seed')):
            if f.startswith('demo') and (f.endswith('.c') or f.endswith('.sh')) or f in ('patch.diff', 'NOTES.md'):
                shutil.copy(os.path.join(wt, '_seed', f), os.path.join(dst, f))
        json.dump(meta, open(os.path.join(dst, 'meta.json'), 'w'), indent=1)
    finally:
        subprocess.call(['git', '-C', '/repo', 'worktree', 'remove', '--force', wt])
        shutil.rmtree(wt, ignore_errors=True)
main()
