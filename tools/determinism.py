#!/usr/bin/env python3
"""Determinism selftest: the same run indices executed twice, partitioned over 1, 8 and 16 processes,
must give identical plan hashes and event hashes.   usage: determinism.py [props] [--n N]"""
import os, subprocess, sys, json
V = os.path.dirname(os.path.dirname(os.path.abspath(__file__)))
PROPS = ['C06', 'C07', 'C08', 'C12', 'C13', 'C14', 'C15', 'C17', 'C18', 'C19', 'C20']
SMALL = {'C08': 240, 'C17': 160, 'C18': 400}
def hashes(alsim, prop, n, nproc, seed):
    procs = []
    for w in range(nproc):
        cnt = (n - w + nproc - 1) // nproc
        cmd = [alsim, 'run', '--prop', prop, '--seed', str(seed), '--from', str(w), '--stride', str(nproc), '--count', str(cnt), '--audit-every', '1']
        procs.append(subprocess.Popen(cmd, stdout=subprocess.PIPE, stderr=subprocess.DEVNULL, text=True))
    H = {}
    for p in procs:
        for line in p.stdout:
            if line.startswith('H '):
                f = line.split()
                H[int(f[1])] = tuple(f[2:])
        p.wait()
    return H
def main():
    args = sys.argv[1:]
    n = 2000
    props = PROPS
    if args and not args[0].startswith('--'):
        props = args[0].split(','); args = args[1:]
    if args[:1] == ['--n']:
        n = int(args[1])
    bad = 0
    for prop in props:
        what = 'cli' if prop == 'C20' else 'lib'
        bdir = os.path.join(V, 'build', 'det-' + what)
        r = subprocess.run([os.path.join(V, 'bin', 'build.sh'), bdir, 'asan', what], stdout=subprocess.PIPE, stderr=subprocess.STDOUT, text=True)
        assert r.returncode == 0, r.stdout
        alsim = os.path.join(bdir, 'alsim')
        nn = min(n, SMALL.get(prop, n))
        ref = hashes(alsim, prop, nn, 1, 7)
        line = '%s: %d runs' % (prop, len(ref))
        for nproc in (8, 16, 16):
            h = hashes(alsim, prop, nn, nproc, 7)
            diff = [k for k in ref if h.get(k) != ref[k]] + [k for k in h if k not in ref]
            line += ' | %d procs: %d mismatches' % (nproc, len(diff))
            bad += len(diff)
        if prop == 'C18':
            tdir = os.path.join(V, 'build', 'det-tsan')
            r = subprocess.run([os.path.join(V, 'bin', 'build.sh'), tdir, 'tsan', 'lib'], stdout=subprocess.PIPE, stderr=subprocess.STDOUT, text=True)
            t1 = hashes(os.path.join(tdir, 'alsim'), prop, 200, 8, 7)
            t2 = hashes(os.path.join(tdir, 'alsim'), prop, 200, 16, 7)
            d = [k for k in t1 if t2.get(k) != t1[k]]
            d2 = [k for k in t1 if ref.get(k) != t1[k]]
            line += ' | tsan build 8 vs 16 procs: %d mismatches, tsan vs asan build: %d mismatches' % (len(d), len(d2))
            bad += len(d)
        print(line, flush=True)
    print('TOTAL mismatches', bad)
    return 1 if bad else 0
sys.exit(main())
