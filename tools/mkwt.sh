#!/bin/sh
# usage: mkwt.sh <dir>   -- scratch git worktree of /repo (HEAD) that can run `make check`:
# the generated autotools files (ignored by git) are copied over, objects are not.
set -e
D="$1"
git -C /repo worktree add -q --detach "$D" HEAD
cd /repo
rsync -a --exclude='.git' --exclude='*.o' --exclude='*.lo' --exclude='.libs' --exclude='*.la' --exclude='*.log' --exclude='*.trs' \
  --exclude='tools/asmline' --exclude='test/check_chunk_counting' --exclude='test/invalid' --exclude='test/jump' --exclude='test/memory_reallocation' \
  --exclude='test/optimization_disabled' --exclude='test/run' --exclude='test/vector_operations' --ignore-existing ./ "$D"/
# re-point generated files at the new location
cd "$D" && (./config.status >/dev/null 2>&1 || true)
echo "worktree ready: $D"
