#!/usr/bin/env python3
"""Run every check (reduced budget) against every seeded change and tabulate the exit codes.
usage: cross_matrix.py [--scale 0.15] [seed-id ...]     -> writes seeded/MATRIX.md"""
import os, re, subprocess, sys, json
V = os.path.dirname(os.path.dirname(os.path.abspath(__file__)))
PROPS = ['C06', 'C07', 'C08', 'C12', 'C13', 'C14', 'C15', 'C17', 'C18', 'C19', 'C20']
def main():
    args = sys.argv[1:]
    scale = '0.15'
    if args[:1] == ['--scale']:
        scale = args[1]; args = args[2:]
    seeds = args or sorted(d for d in os.listdir(os.path.join(V, 'seeded')) if os.path.isdir(os.path.join(V, 'seeded', d)))
    rows = {}
    for sid in seeds:
        patch = os.path.join(V, 'seeded', sid, 'patch.diff')
        r = subprocess.run([os.path.join(V, 'tools', 'try_mutant.py'), patch, ','.join(PROPS), '--scale', scale], stdout=subprocess.PIPE, stderr=subprocess.STDOUT, text=True)
        res = {}
        cls = {}
        cur = None
        for line in r.stdout.splitlines():
            m = re.match(r'== (C\d+) exit=(\d+)', line)
            if m:
                cur = m.group(1); res[cur] = int(m.group(2)); continue
            m = re.search(r'class=([^:@]+)@', line)
            if m and cur:
                cls.setdefault(cur, set()).add(m.group(1))
        rows[sid] = (res, cls)
        print(sid, res, {k: sorted(v) for k, v in cls.items()}, flush=True)
        json.dump({k: {'exit': v[0], 'classes': {a: sorted(b) for a, b in v[1].items()}} for k, v in rows.items()}, open(os.path.join(V, 'seeded', 'matrix.json'), 'w'), indent=1)
    with open(os.path.join(V, 'seeded', 'MATRIX.md'), 'w') as f:
        f.write('# Every check against every seeded change (quick tier at scale %s)\n\n' % scale)
        f.write('Cell: exit status of `bin/check <column>` against the patched tree (1 = VIOLATION reported, 0 = silent, 2 = infrastructure problem), with the violation classes.\n\n')
        f.write('| seeded change | ' + ' | '.join(PROPS) + ' |\n|---|' + '---|' * len(PROPS) + '\n')
        for sid in seeds:
            res, cls = rows[sid]
            f.write('| %s | ' % sid + ' | '.join('%s%s' % (res.get(p, '?'), (' ' + ','.join(sorted(cls[p]))) if p in cls else '') for p in PROPS) + ' |\n')
main()
