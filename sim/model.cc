// Reference model, isolated-line oracle, NOP decoder, fitting relation.
#include "model.h"
#include "corpus.h"
#include "libcall.h"
#include "simos.h"

#include <string.h>
#include <sys/mman.h>

extern "C" void *__real_mmap(void *, size_t, int, int, int, off_t);

namespace sim {

// ---- isolated-line oracle -----------------------------------------------------------------------
static std::unordered_map<std::string, Enc> g_enc;
static std::unordered_map<std::string, std::pair<bool, uint64_t>> g_rax;
static long g_unstable = 0;

struct EncJob {
  const char *text;
  int mov, swap, nobase;
  uint8_t *buf;
  int buflen;
  int ret;
  int off;
  bool run;  // execute afterwards
  uint64_t rax;
};
static void enc_job(void *p) {
  EncJob *j = (EncJob *)p;
  lib::inst_t al = lib::create(j->buf, j->buflen);
  if (!al) {
    j->ret = 1;
    return;
  }
  lib::setter(al, lib::S_MOV_IMM, j->mov);
  lib::setter(al, lib::S_SWAP, j->swap);
  lib::setter(al, lib::S_NOBASE, j->nobase);
  j->ret = lib::asm_str(al, j->text, false);
  j->off = lib::get_offset(al);
  lib::destroy(al);
  if (j->run && j->ret == 0) j->rax = call_zeroed(j->buf);
}

__attribute__((noinline)) uint64_t call_zeroed(const void *code) {
  uint64_t r;
  register const void *c __asm__("rbx") = code;
  __asm__ volatile(
      "sub $256, %%rsp\n\t"
      "xor %%ecx, %%ecx\n\t xor %%edx, %%edx\n\t xor %%esi, %%esi\n\t xor %%edi, %%edi\n\t"
      "xor %%r8d, %%r8d\n\t xor %%r9d, %%r9d\n\t xor %%r10d, %%r10d\n\t xor %%r11d, %%r11d\n\t"
      "xor %%eax, %%eax\n\t"
      "call *%%rbx\n\t"
      "add $256, %%rsp\n\t"
      : "=a"(r)
      : "r"(c)
      : "rcx", "rdx", "rsi", "rdi", "r8", "r9", "r10", "r11", "memory", "cc");
  return r;
}

uint64_t call_with_arrays(const void *code, int len) {
  uint64_t *a[6];
  if (len < 1) len = 1;
  for (int i = 0; i < 6; i++) a[i] = (uint64_t *)calloc((size_t)len, sizeof(uint64_t));
  typedef uint64_t (*fn_t)(uint64_t *, uint64_t *, uint64_t *, uint64_t *, uint64_t *, uint64_t *);
  uint64_t r = ((fn_t)code)(a[0], a[1], a[2], a[3], a[4], a[5]);
  for (int i = 0; i < 6; i++) free(a[i]);
  return r;
}

static uint8_t *exec_page() {
  static uint8_t *pg = nullptr;
  if (!pg) pg = (uint8_t *)__real_mmap(nullptr, 4096, PROT_READ | PROT_WRITE | PROT_EXEC, MAP_PRIVATE | MAP_ANONYMOUS, -1, 0);
  return pg;
}

static Enc compute_enc(const std::string &line, int opts, int fill) {
  Enc e;
  uint8_t *buf = exec_page();
  memset(buf, fill, 256);
  EncJob j;
  memset(&j, 0, sizeof j);
  j.text = line.c_str();
  j.mov = opts / 4;
  j.swap = (opts / 2) & 1;
  j.nobase = opts & 1;
  j.buf = buf;
  j.buflen = 256;
  j.ret = 1;
  OpCtx ctx;
  ctx.reset_op(nullptr, 0);
  int jc = run_in_lib(&ctx, enc_job, &j, 2000000);
  if (jc != J_NONE) {
    e.crashed = true;
    return e;
  }
  if (j.ret == 0 && j.off >= 0 && j.off <= 24) {
    e.ok = true;
    e.len = (uint8_t)j.off;
    memcpy(e.bytes, buf, e.len);
  }
  return e;
}

const Enc &enc(const std::string &line, int opts) {
  std::string key = line;
  key.push_back('\x01');
  key.push_back((char)('A' + opts));
  auto it = g_enc.find(key);
  if (it != g_enc.end()) return it->second;
  Enc e = compute_enc(line, opts, 0xCC);
  return g_enc.emplace(key, e).first->second;
}
bool enc_recheck(const std::string &line, int opts, int fill) {
  const Enc &a = enc(line, opts);
  Enc b = compute_enc(line, opts, fill);
  bool same = a.ok == b.ok && a.crashed == b.crashed && a.len == b.len && !memcmp(a.bytes, b.bytes, a.len);
  if (!same) g_unstable++;
  return same;
}
long enc_cache_size() { return (long)g_enc.size(); }
long enc_unstable_count() { return g_unstable; }

bool enc_rax(const std::string &line, int opts, uint64_t *rax) {
  std::string key = line;
  key.push_back('\x01');
  key.push_back((char)('A' + opts));
  auto it = g_rax.find(key);
  if (it == g_rax.end()) {
    std::string prog = line + "\nret\n";
    uint8_t *buf = exec_page();
    memset(buf, 0xCC, 256);
    EncJob j;
    memset(&j, 0, sizeof j);
    j.text = prog.c_str();
    j.mov = opts / 4;
    j.swap = (opts / 2) & 1;
    j.nobase = opts & 1;
    j.buf = buf;
    j.buflen = 256;
    j.ret = 1;
    j.run = true;
    OpCtx ctx;
    ctx.reset_op(nullptr, 0);
    int jc = run_in_lib(&ctx, enc_job, &j, 2000000);
    bool ok = jc == J_NONE && j.ret == 0;
    it = g_rax.emplace(key, std::make_pair(ok, j.rax)).first;
  }
  if (rax) *rax = it->second.second;
  return it->second.first;
}

static bool exec_text(const std::string &prog, int opts, uint64_t *rax) {
  uint8_t *buf = exec_page();
  memset(buf, 0xCC, 256);
  EncJob j;
  memset(&j, 0, sizeof j);
  j.text = prog.c_str();
  j.mov = opts / 4;
  j.swap = (opts / 2) & 1;
  j.nobase = opts & 1;
  j.buf = buf;
  j.buflen = 256;
  j.ret = 1;
  j.run = true;
  OpCtx ctx;
  ctx.reset_op(nullptr, 0);
  int jc = run_in_lib(&ctx, enc_job, &j, 2000000);
  if (jc != J_NONE || j.ret != 0) return false;
  *rax = j.rax;
  return true;
}

bool validate_exec_safe(const std::string &line, bool writes_rax) {
  for (int o = 0; o < 12; o++) {
    uint64_t v = 0, w = 0;
    if (writes_rax) {
      // value must not depend on what precedes or follows the line
      if (!enc_rax(line, o, &v)) return false;
      if (!exec_text("mov eax, 0x12345678\n" + line + "\nnop\nret\n", o, &w) || w != v) return false;
      if (!exec_text("mov rcx, 0x1122334455667788\n" + line + "\nnop3\nadd rcx, rdx\nret\n", o, &w) || w != v) return false;
    } else {
      // the line must fall through to the next instruction and leave rax alone
      if (!exec_text(line + "\nmov eax, 0x12345678\nret\n", o, &w) || w != 0x12345678) return false;
      if (!exec_text("mov eax, 0x12345678\n" + line + "\nret\n", o, &w) || w != 0x12345678) return false;
    }
  }
  return true;
}

// ---- observed geometry ------------------------------------------------------------------------------
struct GeoJob {
  long initial = 0, after = 0;
};
static void geo_job(void *p) {
  GeoJob *g = (GeoJob *)p;
  lib::inst_t al = lib::create(nullptr, 0);
  if (!al) return;
  Island *is = island_of(lib::get_code(al, false));
  if (is) g->initial = (long)is->req_len;
  // append 10-byte lines until the mapping changes its size (or 40000 bytes were written)
  static const char *chunk = "nop10\nnop10\nnop10\nnop10\nnop10\nnop10\nnop10\nnop10\nnop10\nnop10\n";
  for (int i = 0; i < 400 && g->initial > 0; i++) {
    if (lib::asm_str(al, chunk, false) != 0) break;
    Island *now = island_of(lib::get_code(al, false));
    if (now && (long)now->req_len != g->initial) {
      g->after = (long)now->req_len;
      break;
    }
  }
  lib::destroy(al);
}
const LibGeometry &lib_geometry() {
  static LibGeometry geo;
  static bool done = false;
  if (done) return geo;
  done = true;
  GeoJob j;
  OpCtx ctx;
  ctx.reset_op(nullptr, 0);
  World w;
  sim_begin_run(w);
  int jc = run_in_lib(&ctx, geo_job, &j, 50000000);
  sim_end_run();
  if (jc == J_NONE && j.initial >= 64 && j.after > j.initial) {
    geo.initial = j.initial;
    geo.step = j.after - j.initial;
    geo.observed = true;
  }
  return geo;
}

// ---- NOP decoder ------------------------------------------------------------------------------------
int nop_len_at(const uint8_t *p, long avail) {
  long i = 0;
  while (i < avail && p[i] == 0x66) i++;
  if (i >= avail) return 0;
  if (p[i] == 0x90) {
    long n = i + 1;
    return n <= 15 ? (int)n : 0;
  }
  if (p[i] == 0x0f && i + 2 < avail && p[i + 1] == 0x1f) {
    uint8_t modrm = p[i + 2];
    if (((modrm >> 3) & 7) != 0) return 0;  // /0
    int mod = modrm >> 6, rm = modrm & 7;
    long n = i + 3;
    if (mod == 3) return n <= 15 ? (int)n : 0;
    int base = rm;
    if (rm == 4) {
      if (n >= avail) return 0;
      base = p[n] & 7;
      n++;
    }
    if (mod == 1)
      n += 1;
    else if (mod == 2)
      n += 4;
    else if (mod == 0 && base == 5)
      n += 4;  // disp32 (RIP-relative or SIB without base)
    if (n > avail || n > 15) return 0;
    return (int)n;
  }
  return 0;
}
bool is_nop_run(const uint8_t *p, long n) {
  long i = 0;
  while (i < n) {
    int l = nop_len_at(p + i, n - i);
    if (l <= 0) return false;
    i += l;
  }
  return i == n;
}

// ---- instance model -----------------------------------------------------------------------------------
void InstModel::reset_created(bool ext, long n) {
  *this = InstModel();
  live = true;
  external = ext;
  cap = n;
}
void InstModel::apply_setter(int which, int v) {
  // documented table; v: 0 STRICT, 1 NASM, 2 SMART, anything else: no-op
  switch (which) {
    case lib::S_MOV_IMM:
      if (v == 0 || v == 1 || v == 2) mov = v;
      break;
    case lib::S_SWAP:
      if (v == 0 || v == 1) swap = v;
      break;
    case lib::S_NOBASE:
      if (v == 0 || v == 1) nobase = v;
      break;
    case lib::S_SIB:
      if (v == 0 || v == 1) swap = nobase = v;
      break;
    case lib::S_SET_ALL:
      if (v == 0 || v == 1) mov = swap = nobase = v;
      else if (v == 2) mov = 2;
      break;
  }
}
void InstModel::apply_chunk(long c) {
  if (c >= 2) ever_fit = true;
  chunk = c >= 2 ? c : 0;
  chunk_unknown = false;
}
void InstModel::truncate_segs(long start) {
  while (!segs.empty() && segs.back().start + segs.back().len > start) segs.pop_back();
}
bool InstModel::exec_ready(uint64_t *expect_rax) const {
  if (offset_unspec || segs.empty()) return false;
  long p = 0;
  bool have_rax = false;
  uint64_t rax = 0;
  const Seg *last = nullptr;
  for (const Seg &s : segs) {
    if (s.start != p) return false;
    if (p >= offset) break;
    if (!s.pad) {
      if (!s.safe) return false;
      if (last && last->is_ret) return false;  // only one ret, at the very end
      if (s.writes_rax) {
        have_rax = true;
        rax = s.rax;
      }
      last = &s;
    }
    p += s.len;
  }
  if (p != offset || !last || !last->is_ret || !have_rax) return false;
  if (expect_rax) *expect_rax = rax;
  return true;
}

// ---- one assemble call ----------------------------------------------------------------------------------
static Seg seg_for_line(const std::string &line, int opts, long start, int len) {
  Seg s;
  s.start = start;
  s.len = len;
  bool is_ret = false, wr = false;
  s.safe = line_exec_safe(line, &is_ret, &wr);
  s.is_ret = is_ret;
  s.writes_rax = wr;
  if (s.safe && wr) {
    uint64_t v = 0;
    if (enc_rax(line, opts, &v))
      s.rax = v;
    else
      s.safe = 0;
  }
  return s;
}

struct FitCtx {
  AsmCheck *k;
  int opts;
  std::vector<const Enc *> encs;  // per instruction line (fillers removed)
  std::vector<int> line_of;
  long steps = 0;
  std::vector<std::pair<long, int>> layout;  // (position, pad length before) per instruction
};

// Depth-first search over the padding choices, iterative (programs have tens of thousands of lines).
// For instruction i at position p the admissible placements are, in order of preference:
//   it fits (L <= free):                exactly at p, no padding allowed
//   it would cross / is >= the chunk:   unpadded at p if L >= c; then after P bytes of NOPs, the library's
//                                       choice P = free first, then every other prefix of the NOP chain at p
static void fit_options(FitCtx &f, size_t i, long p, std::vector<std::pair<long, int>> &out) {
  AsmCheck &k = *f.k;
  out.clear();
  const Enc &E = *f.encs[i];
  long L = E.len, c = k.c;
  long fre = c - p % c;
  auto match_at = [&](long q) { return q + L <= k.buf_cap && !memcmp(k.buf + q, E.bytes, L); };
  if (L <= fre) {
    if (match_at(p)) out.emplace_back(p, 0);
    return;
  }
  if (L >= c && match_at(p)) out.emplace_back(p, 0);
  long cand[64];
  int nc = 0;
  long q = p;
  while (nc < 64 && q - p < 4 * c + 64) {
    int l = nop_len_at(k.buf + q, k.buf_cap - q);
    if (l <= 0) break;
    q += l;
    cand[nc++] = q - p;
  }
  for (int pass = 0; pass < 2; pass++)
    for (int ci = 0; ci < nc; ci++) {
      long P = cand[ci];
      if ((pass == 0) != (P == fre)) continue;
      long at = p + P;
      if (!match_at(at)) continue;
      if (L < c && L > c - at % c) continue;  // must now lie inside one chunk
      out.emplace_back(at, (int)P);
    }
}

static bool fit_dfs(FitCtx &f, size_t i0, long p0) {
  AsmCheck &k = *f.k;
  struct Choice {
    size_t i;
    std::vector<std::pair<long, int>> opts;
    size_t next;
  };
  std::vector<Choice> stack;
  std::vector<std::pair<long, int>> opts;
  size_t i = i0;
  long p = p0;
  for (;;) {
    bool dead = false;
    if (++f.steps > 2000000) return false;
    if (i == f.encs.size()) {
      if (p == k.off_after) return true;
      dead = true;
    } else {
      fit_options(f, i, p, opts);
      if (opts.empty())
        dead = true;
      else {
        f.layout.emplace_back(opts[0]);
        p = opts[0].first + f.encs[i]->len;
        if (opts.size() > 1) stack.push_back(Choice{i, opts, 1});
        i++;
      }
    }
    if (dead) {
      // back to the most recent instruction that still has an untried placement
      bool resumed = false;
      while (!stack.empty()) {
        Choice &c = stack.back();
        if (c.next < c.opts.size()) {
          f.layout.resize(c.i);
          f.layout.emplace_back(c.opts[c.next]);
          p = c.opts[c.next].first + f.encs[c.i]->len;
          c.next++;
          i = c.i + 1;
          resumed = true;
          break;
        }
        stack.pop_back();
      }
      if (!resumed) return false;
    }
  }
}

int walk_expect(const InstModel &m, const std::vector<std::string> &lines, int mode, long c, long start, long *end, int *n_instr,
                bool *reserve_edge) {
  const int opts = m.opts();
  const bool ext = m.external;
  const long cap = m.cap;
  const bool fitting = mode == M_FIT && c >= 2;
  int fail = FR_NONE;
  long q = start;
  for (const std::string &ln : lines) {
    const Enc &E = enc(ln, opts);
    if (E.filler()) continue;
    if (!E.ok) {
      fail = FR_REJECT;
      break;
    }
    if (n_instr) (*n_instr)++;
    if (reserve_edge && ext && cap - q >= 20 && cap - q <= 22) *reserve_edge = true;
    if (ext && cap - q < 20) {
      fail = FR_RESERVE;
      break;
    }
    long L = E.len;
    if (fitting) {
      long fre = c - q % c;
      if (L > fre && L < c) {
        q += fre;
        if (ext && cap - q < 20) {
          fail = FR_RESERVE;
          break;
        }
      }
    }
    q += L;
  }
  if (end) *end = q;
  return fail;
}

void check_assemble(AsmCheck &k) {
  const InstModel &m = *k.m;
  const int opts = m.opts();
  const bool fitting = k.mode == M_FIT && k.c >= 2;
  k.expect_fail = FR_NONE;
  k.ret_ok = k.off_ok = k.bytes_ok = k.fit_ok = k.count_ok = true;
  k.segs.clear();
  char msg[256];

  // phase 1: does the model expect this call to fail?  (library's padding choice P = free)
  {
    long e = 0;
    k.expect_fail = walk_expect(m, *k.lines, k.mode, k.c, k.start, &e, &k.n_instr, &k.reserve_edge);
  }
  if (k.expect_fail == FR_NONE && k.fault_fired) k.expect_fail = FR_FAULT;
  if (k.expect_fail != FR_NONE) {
    k.ret_ok = (k.ret == 1);
    if (!k.ret_ok) {
      snprintf(msg, sizeof msg, "returned %d where failure is expected (%s)", k.ret,
               k.expect_fail == FR_REJECT ? "rejected line" : k.expect_fail == FR_RESERVE ? "fewer than 20 bytes left" : "refused OS call");
      k.detail = msg;
    }
    return;
  }
  k.ret_ok = (k.ret == 0);
  if (!k.ret_ok) {
    snprintf(msg, sizeof msg, "returned %d where success is expected", k.ret);
    k.detail = msg;
    return;
  }

  // phase 2: bytes
  if (!fitting) {
    long p = k.start;
    int crossing = 0;
    for (const std::string &ln : *k.lines) {
      const Enc &E = enc(ln, opts);
      if (E.filler()) continue;
      long L = E.len;
      if (p + L > k.buf_cap || memcmp(k.buf + p, E.bytes, L)) {
        if (k.bytes_ok) {
          snprintf(msg, sizeof msg, "bytes at offset %ld differ from the code of line \"%s\" assembled alone", p, ln.c_str());
          k.detail = msg;
        }
        k.bytes_ok = false;
        break;
      }
      if (k.mode == M_COUNT && k.c >= 2 && L > 0 && p / k.c != (p + L - 1) / k.c) crossing++;
      k.segs.push_back(seg_for_line(ln, opts, p, (int)L));
      p += L;
    }
    k.end = p;
    if (k.bytes_ok && k.off_after != p) {
      k.off_ok = false;
      snprintf(msg, sizeof msg, "offset after the call is %ld, expected %ld", k.off_after, p);
      k.detail = msg;
    }
    if (k.mode == M_COUNT) {
      k.expect_count = crossing;
      if (k.bytes_ok && k.count_out != crossing) {
        k.count_ok = false;
        snprintf(msg, sizeof msg, "reported count %d, expected %d (c=%ld, start=%ld)", k.count_out, crossing, k.c, k.start);
        if (k.detail.empty()) k.detail = msg;
      }
    }
    return;
  }

  // fitting: relation of DESIGN 5.3
  FitCtx f;
  f.k = &k;
  f.opts = opts;
  for (size_t i = 0; i < k.lines->size(); i++) {
    const Enc &E = enc((*k.lines)[i], opts);
    if (E.filler()) continue;
    f.encs.push_back(&E);
    f.line_of.push_back((int)i);
  }
  bool ok = fit_dfs(f, 0, k.start);
  if (!ok) {
    k.fit_ok = false;
    // find the first position where the library's own layout stops matching, for the message
    long p = k.start;
    size_t i = 0;
    for (; i < f.encs.size(); i++) {
      long L = f.encs[i]->len, fre = k.c - p % k.c;
      if (L > fre && L < k.c) {
        if (!is_nop_run(k.buf + p, fre)) break;
        p += fre;
      }
      if (p + L > k.buf_cap || memcmp(k.buf + p, f.encs[i]->bytes, L)) break;
      p += L;
    }
    if (i < f.encs.size())
      snprintf(msg, sizeof msg, "chunk fitting (c=%ld): output at offset %ld is neither NOP padding nor the code of line \"%s\"", k.c, p,
               (*k.lines)[f.line_of[i]].c_str());
    else
      snprintf(msg, sizeof msg, "chunk fitting (c=%ld): offset after the call is %ld, layout ends at %ld", k.c, k.off_after, p);
    k.detail = msg;
    return;
  }
  long p = k.start;
  for (size_t i = 0; i < f.layout.size(); i++) {
    long at = f.layout[i].first;
    int P = f.layout[i].second;
    long L = f.encs[i]->len;
    if (P) {
      Seg s;
      s.start = p;
      s.len = P;
      s.pad = 1;
      k.segs.push_back(s);
      k.pads++;
      if (P > 11) k.pads_gt11++;
    }
    if (L >= k.c) k.instr_ge_c++;
    if (!P && L == k.c - at % k.c) k.exact_fit++;
    k.segs.push_back(seg_for_line((*k.lines)[f.line_of[i]], opts, at, (int)L));
    p = at + L;
  }
  k.end = p;
}

bool line_exec_safe(const std::string &line, bool *is_ret, bool *writes_rax) {
  int fl = corpus_flags(line);
  if (is_ret) *is_ret = (fl & CF_RET) != 0;
  if (writes_rax) *writes_rax = (fl & CF_RAX) != 0;
  return (fl & CF_SAFE) != 0;
}

}  // namespace sim
