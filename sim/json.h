// Minimal JSON value, parser and serialiser (objects keep insertion order so that
// serialisation of a plan is canonical and can be hashed).
#pragma once
#include <cstdint>
#include <cstdio>
#include <cstdlib>
#include <cstring>
#include <string>
#include <utility>
#include <vector>

namespace sim {

struct Json {
  enum Type { NUL, BOOL, NUM, STR, ARR, OBJ } type = NUL;
  bool b = false;
  long long n = 0;
  std::string s;
  std::vector<Json> a;
  std::vector<std::pair<std::string, Json>> o;

  Json() {}
  static Json Bool(bool v) { Json j; j.type = BOOL; j.b = v; return j; }
  static Json Num(long long v) { Json j; j.type = NUM; j.n = v; return j; }
  static Json Str(const std::string &v) { Json j; j.type = STR; j.s = v; return j; }
  static Json Arr() { Json j; j.type = ARR; return j; }
  static Json Obj() { Json j; j.type = OBJ; return j; }

  Json &set(const std::string &k, Json v) {
    for (auto &kv : o)
      if (kv.first == k) { kv.second = std::move(v); return *this; }
    o.emplace_back(k, std::move(v));
    return *this;
  }
  Json &set(const std::string &k, long long v) { return set(k, Num(v)); }
  Json &set(const std::string &k, int v) { return set(k, Num(v)); }
  Json &set(const std::string &k, long v) { return set(k, Num(v)); }
  Json &set(const std::string &k, unsigned long v) { return set(k, Num((long long)v)); }
  Json &set(const std::string &k, const char *v) { return set(k, Str(v)); }
  Json &set(const std::string &k, const std::string &v) { return set(k, Str(v)); }
  Json &setb(const std::string &k, bool v) { return set(k, Bool(v)); }
  Json &push(Json v) { a.push_back(std::move(v)); return *this; }

  const Json *get(const std::string &k) const {
    for (auto &kv : o)
      if (kv.first == k) return &kv.second;
    return nullptr;
  }
  bool has(const std::string &k) const { return get(k) != nullptr; }
  long long num(const std::string &k, long long dflt = 0) const {
    const Json *j = get(k);
    if (!j) return dflt;
    if (j->type == NUM) return j->n;
    if (j->type == BOOL) return j->b;
    return dflt;
  }
  bool boolean(const std::string &k, bool dflt = false) const {
    const Json *j = get(k);
    if (!j) return dflt;
    if (j->type == BOOL) return j->b;
    if (j->type == NUM) return j->n != 0;
    return dflt;
  }
  std::string str(const std::string &k, const std::string &dflt = "") const {
    const Json *j = get(k);
    return (j && j->type == STR) ? j->s : dflt;
  }

  static void esc(const std::string &in, std::string &out) {
    out.push_back('"');
    for (unsigned char c : in) {
      switch (c) {
        case '"': out += "\\\""; break;
        case '\\': out += "\\\\"; break;
        case '\n': out += "\\n"; break;
        case '\r': out += "\\r"; break;
        case '\t': out += "\\t"; break;
        default:
          if (c < 0x20 || c >= 0x7f) {
            char buf[8];
            snprintf(buf, sizeof buf, "\\u%04x", c);
            out += buf;
          } else
            out.push_back((char)c);
      }
    }
    out.push_back('"');
  }
  void dump(std::string &out) const {
    switch (type) {
      case NUL: out += "null"; break;
      case BOOL: out += b ? "true" : "false"; break;
      case NUM: out += std::to_string(n); break;
      case STR: esc(s, out); break;
      case ARR: {
        out.push_back('[');
        for (size_t i = 0; i < a.size(); i++) {
          if (i) out.push_back(',');
          a[i].dump(out);
        }
        out.push_back(']');
        break;
      }
      case OBJ: {
        out.push_back('{');
        for (size_t i = 0; i < o.size(); i++) {
          if (i) out.push_back(',');
          esc(o[i].first, out);
          out.push_back(':');
          o[i].second.dump(out);
        }
        out.push_back('}');
        break;
      }
    }
  }
  std::string dump() const { std::string s; dump(s); return s; }

  // ---- parser ----
  struct P {
    const char *p, *e;
    bool ok = true;
    void ws() { while (p < e && (*p == ' ' || *p == '\n' || *p == '\t' || *p == '\r')) p++; }
    Json val() {
      ws();
      if (p >= e) { ok = false; return Json(); }
      char c = *p;
      if (c == '{') {
        p++;
        Json j = Obj();
        ws();
        if (p < e && *p == '}') { p++; return j; }
        while (ok) {
          ws();
          Json k = val();
          if (k.type != STR) { ok = false; break; }
          ws();
          if (p >= e || *p != ':') { ok = false; break; }
          p++;
          Json v = val();
          j.o.emplace_back(k.s, std::move(v));
          ws();
          if (p < e && *p == ',') { p++; continue; }
          if (p < e && *p == '}') { p++; break; }
          ok = false;
        }
        return j;
      }
      if (c == '[') {
        p++;
        Json j = Arr();
        ws();
        if (p < e && *p == ']') { p++; return j; }
        while (ok) {
          j.a.push_back(val());
          ws();
          if (p < e && *p == ',') { p++; continue; }
          if (p < e && *p == ']') { p++; break; }
          ok = false;
        }
        return j;
      }
      if (c == '"') {
        p++;
        Json j; j.type = STR;
        while (p < e && *p != '"') {
          if (*p == '\\' && p + 1 < e) {
            p++;
            switch (*p) {
              case 'n': j.s.push_back('\n'); break;
              case 'r': j.s.push_back('\r'); break;
              case 't': j.s.push_back('\t'); break;
              case 'b': j.s.push_back('\b'); break;
              case 'f': j.s.push_back('\f'); break;
              case 'u': {
                if (p + 4 < e) {
                  char h[5] = {p[1], p[2], p[3], p[4], 0};
                  unsigned v = (unsigned)strtoul(h, nullptr, 16);
                  j.s.push_back((char)(v & 0xff));
                  p += 4;
                }
                break;
              }
              default: j.s.push_back(*p);
            }
            p++;
          } else
            j.s.push_back(*p++);
        }
        if (p >= e) { ok = false; return j; }
        p++;
        return j;
      }
      if (c == 't' && e - p >= 4 && !strncmp(p, "true", 4)) { p += 4; return Bool(true); }
      if (c == 'f' && e - p >= 5 && !strncmp(p, "false", 5)) { p += 5; return Bool(false); }
      if (c == 'n' && e - p >= 4 && !strncmp(p, "null", 4)) { p += 4; return Json(); }
      if (c == '-' || (c >= '0' && c <= '9')) {
        char *end = nullptr;
        long long v = strtoll(p, &end, 10);
        if (end && end < e && (*end == '.' || *end == 'e' || *end == 'E')) {
          double d = strtod(p, &end);
          v = (long long)d;
        }
        p = end;
        return Num(v);
      }
      ok = false;
      return Json();
    }
  };
  static bool parse(const std::string &text, Json &out) {
    P ps{text.data(), text.data() + text.size()};
    out = ps.val();
    ps.ws();
    return ps.ok;
  }
};

}  // namespace sim
