/* Scheduler seam.  This translation unit is compiled WITHOUT any sanitizer and without
 * coverage instrumentation.
 *
 *  - It receives one callback per control-flow edge of the real AssemblyLine code
 *    (-fsanitize-coverage=trace-pc-guard on the library TUs only).  The callback counts
 *    steps (logical time, step budget = bounded liveness) and, in fine mode, is a
 *    preemption point.
 *  - Fine mode: every task is a real pthread; exactly one holds the baton.  The hand-off
 *    uses raw futex system calls and plain stores only, so it is invisible to
 *    ThreadSanitizer: in the TSan build the only happens-before edges between caller
 *    threads are the ones the library itself creates, and every conflicting pair of
 *    non-atomic accesses is still reported although the schedule is fully serialised.
 */
#define _GNU_SOURCE 1
#include <linux/futex.h>
#include <stdint.h>
#include <string.h>
#include <sys/syscall.h>
#include <unistd.h>

#define MAX_EDGES (1 << 16)
#define MAX_TASKS 8
#define MAX_PREEMPT 4096

static unsigned char edge_hit[MAX_EDGES];
static unsigned n_edges = 0;

/* per-thread step accounting */
static __thread long t_steps = 0;
static __thread long t_budget = 0;
static __thread int t_active = 0;
static __thread int t_task = -1; /* fine mode task id of this thread, -1 = coarse */

extern void sim_hang_trap(void); /* simos.cc: unwinds the current operation */

/* ---------------- fine scheduler state (only touched by the baton holder) ------------- */
struct preempt {
  long at; /* local yield-point index of the task at which to switch */
  int to;  /* preferred task to run next (interpreted modulo the runnable ones) */
};
struct fine_task {
  volatile int wake; /* futex word */
  volatile int runnable;
  long local_step;
  int n_pre;
  int next_pre;
  struct preempt pre[MAX_PREEMPT];
  uint32_t parked_edge; /* edge id at which the task is parked (0 = at an operation boundary) */
};
static struct fine_task tasks[MAX_TASKS];
static int n_tasks = 0;
static volatile int ctl_wake = 0;
static long n_switches = 0;
static uint64_t sched_hash = 1469598103934665603ULL;
/* overlap pairs: (edge where the preempted task stopped, edge where the resumed task had been parked) */
#define PAIR_SLOTS (1 << 16)
static uint64_t pair_tab[PAIR_SLOTS];
static long n_pairs = 0;

static void futex_wait(volatile int *w) {
  while (__atomic_load_n(w, __ATOMIC_RELAXED) == 0)
    syscall(SYS_futex, w, FUTEX_WAIT, 0, NULL, NULL, 0);
  __atomic_store_n(w, 0, __ATOMIC_RELAXED);
}
static void futex_post(volatile int *w) {
  __atomic_store_n(w, 1, __ATOMIC_RELAXED);
  syscall(SYS_futex, w, FUTEX_WAKE, 1, NULL, NULL, 0);
}
/* counting variant for the controller: several tasks may report before it looks */
static void counter_post(volatile int *w) {
  __atomic_add_fetch(w, 1, __ATOMIC_RELAXED);
  syscall(SYS_futex, w, FUTEX_WAKE, 1, NULL, NULL, 0);
}
static void counter_wait(volatile int *w, int target) {
  for (;;) {
    int v = __atomic_load_n(w, __ATOMIC_RELAXED);
    if (v >= target) return;
    syscall(SYS_futex, w, FUTEX_WAIT, v, NULL, NULL, 0);
  }
}

static void pair_note(uint32_t a, uint32_t b) {
  uint64_t key = ((uint64_t)a << 32) | b | 0x8000000000000000ULL;
  uint64_t h = key * 0x9e3779b97f4a7c15ULL;
  for (int probe = 0; probe < 64; probe++) {
    unsigned slot = (unsigned)((h >> 40) + probe) & (PAIR_SLOTS - 1);
    if (pair_tab[slot] == key) return;
    if (pair_tab[slot] == 0) {
      pair_tab[slot] = key;
      n_pairs++;
      return;
    }
  }
}

static int pick_runnable(int preferred, int self) {
  /* preferred interpreted modulo the runnable tasks other than self; -1 if none */
  int cand[MAX_TASKS], nc = 0;
  for (int i = 0; i < n_tasks; i++)
    if (i != self && tasks[i].runnable) cand[nc++] = i;
  if (nc == 0) return -1;
  if (preferred < 0) preferred = 0;
  return cand[preferred % nc];
}

static void hand_over(int self, int to, uint32_t edge) {
  tasks[self].parked_edge = edge;
  n_switches++;
  sched_hash = (sched_hash ^ (uint64_t)(self * 31 + to)) * 1099511628211ULL;
  sched_hash = (sched_hash ^ (uint64_t)tasks[self].local_step) * 1099511628211ULL;
  if (edge && tasks[to].parked_edge) pair_note(edge, tasks[to].parked_edge);
  futex_post(&tasks[to].wake);
  futex_wait(&tasks[self].wake);
}

static __thread int t_no_preempt = 0;  /* inside a libc primitive that must not be interrupted (pthread_once init) */
static __thread long t_since_switch = 0;

static inline void yield_point(uint32_t edge) {
  int me = t_task;
  struct fine_task *t = &tasks[me];
  long s = t->local_step++;
  if (t_no_preempt) return;
  if (t->next_pre < t->n_pre && t->pre[t->next_pre].at <= s) {
    int to = pick_runnable(t->pre[t->next_pre].to, me);
    t->next_pre++;
    if (to >= 0) {
      t_since_switch = 0;
      hand_over(me, to, edge);
      return;
    }
  }
  /* fairness: a caller that spins (e.g. waiting for a lock held by a parked caller) lets the others run */
  if (++t_since_switch > 200000) {
    t_since_switch = 0;
    int to = pick_runnable((int)(s & 7), me);
    if (to >= 0) hand_over(me, to, edge);
  }
}

void sim_no_preempt(int delta) { t_no_preempt += delta; }

/* the running caller cannot make progress (lock held by a parked caller): let another one run */
void fine_force_yield(void) {
  if (t_task < 0) return;
  int to = pick_runnable((int)(tasks[t_task].local_step & 7), t_task);
  if (to >= 0) {
    t_since_switch = 0;
    hand_over(t_task, to, 0x7fffffffu);
  }
}

/* ---------------- coverage callbacks ---------------------------------------------------- */
void __sanitizer_cov_trace_pc_guard_init(uint32_t *start, uint32_t *stop) {
  if (start == stop || *start) return;
  for (uint32_t *x = start; x < stop; x++) {
    unsigned id = ++n_edges;
    *x = id < MAX_EDGES ? id : MAX_EDGES - 1;
  }
}

void __sanitizer_cov_trace_pc_guard(uint32_t *guard) {
  if (!t_active) return;
  edge_hit[*guard] = 1;
  if (++t_steps > t_budget) {
    t_active = 0;
    sim_hang_trap();
  }
  if (t_task >= 0) yield_point(*guard);
}

/* ---------------- interface used by simos.cc / runner.cc -------------------------------- */
void sim_steps_begin(long budget) {
  t_steps = 0;
  t_budget = budget;
  t_active = 1;
}
long sim_steps_end(void) {
  t_active = 0;
  return t_steps;
}
long sim_steps_now(void) { return t_steps; }
unsigned sim_edges_total(void) { return n_edges; }
unsigned sim_edges_hit(void) {
  unsigned c = 0;
  for (unsigned i = 1; i <= n_edges && i < MAX_EDGES; i++) c += edge_hit[i];
  return c;
}
void sim_edges_export(unsigned char *dst, unsigned n) {
  memcpy(dst, edge_hit, n < MAX_EDGES ? n : MAX_EDGES);
}

/* yield point inside an intercepted libc call (called by the wrappers while in real code) */
void sim_yield_call(int kind) {
  if (t_active && t_task >= 0) yield_point(0x40000000u | (uint32_t)kind);
}

/* fine mode control */
void fine_reset(int ntasks) {
  n_tasks = ntasks;
  memset(tasks, 0, sizeof tasks);
  ctl_wake = 0;
  n_switches = 0;
  sched_hash = 1469598103934665603ULL;
}
int fine_add_preempt(int task, long at, int to) {
  struct fine_task *t = &tasks[task];
  if (t->n_pre >= MAX_PREEMPT) return -1;
  t->pre[t->n_pre].at = at;
  t->pre[t->n_pre].to = to;
  t->n_pre++;
  return 0;
}
/* called by a task thread first thing: park until scheduled */
void fine_task_enter(int task) {
  t_task = task;
  tasks[task].runnable = 1;
  counter_post(&ctl_wake); /* tell the controller this task is parked-ready */
  futex_wait(&tasks[task].wake);
}
/* operation boundary: also a preemption point (edge id 0) */
void fine_op_boundary(void) {
  if (t_task >= 0) {
    int was = t_active;
    t_active = 1; /* boundaries always count as yield points */
    yield_point(0);
    t_active = was;
  }
}
/* called by a task thread when it has no more operations */
void fine_task_exit(void) {
  int me = t_task;
  tasks[me].runnable = 0;
  tasks[me].parked_edge = 0;
  int to = pick_runnable(0, me);
  t_task = -1;
  if (to >= 0) {
    n_switches++;
    futex_post(&tasks[to].wake);
  } else {
    counter_post(&ctl_wake);
  }
}
/* controller: wait until all tasks have parked, then start `first`, then wait for the end */
void fine_ctl_wait(int target) { counter_wait(&ctl_wake, target); }
void fine_ctl_start(int first) { futex_post(&tasks[first].wake); }
long fine_switches(void) { return n_switches; }
uint64_t fine_sched_hash(void) { return sched_hash; }
long fine_pairs(void) { return n_pairs; }
long fine_local_steps(int task) { return tasks[task].local_step; }
int fine_current_task(void) { return t_task; }
