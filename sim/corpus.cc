#include "corpus.h"
#include "model.h"

#include <string.h>
#include <unordered_map>

namespace sim {

static const char *HARVESTED[] = {
#include "corpus_harvested.inc"
};

struct Hand {
  const char *text;
  int flags;
};
// hand-written lines: all emitted lengths 1..14, option-sensitive forms, exec-safe material, fillers, rejects
static const Hand HAND[] = {
    {"nop", CF_SAFE}, {"nop2", CF_SAFE}, {"nop3", CF_SAFE}, {"nop4", CF_SAFE}, {"nop5", CF_SAFE}, {"nop6", CF_SAFE},
    {"nop7", CF_SAFE}, {"nop8", CF_SAFE}, {"nop9", CF_SAFE}, {"nop10", CF_SAFE}, {"nop11", CF_SAFE},
    {"ret", CF_SAFE | CF_RET},
    // rax writers (value learnt by executing the line alone)
    {"mov rax, 0x1122334455667788", CF_SAFE | CF_RAX},
    {"mov rax, 0x7fffffff", CF_SAFE | CF_RAX | CF_OPTSENS},
    {"mov rax, 0x000000007fffffff", CF_SAFE | CF_RAX | CF_OPTSENS},
    {"mov rax, 0x11", CF_SAFE | CF_RAX | CF_OPTSENS},
    {"mov rax, 1234567", CF_SAFE | CF_RAX | CF_OPTSENS},
    {"mov rax, 0x7fffffffffffffff", CF_SAFE | CF_RAX},
    {"mov rax, 0x0", CF_SAFE | CF_RAX | CF_OPTSENS},
    {"mov eax, 0x12345678", CF_SAFE | CF_RAX},
    {"MOV RAX, 0x42 ; trailing comment", CF_SAFE | CF_RAX | CF_OPTSENS},
    {"  mov   rax ,  0x0000000000000099", CF_SAFE | CF_RAX | CF_OPTSENS},
    // exec-safe: caller-saved registers other than rax, no memory access, no stack
    {"mov rcx, 0x1122334455667788", CF_SAFE},
    {"mov rdx, 0x7fffffff", CF_SAFE | CF_OPTSENS},
    {"mov rsi, 0x000000007fffffff", CF_SAFE | CF_OPTSENS},
    {"mov r8, 0xabcdef", CF_SAFE | CF_OPTSENS},
    {"mov r9, 0x0000000000abcdef", CF_SAFE | CF_OPTSENS},
    {"mov r10, 77", CF_SAFE | CF_OPTSENS},
    {"mov r11d, 0x12345", CF_SAFE},
    {"mov ecx, 5", CF_SAFE},
    {"add rcx, rdx", CF_SAFE},
    {"add rcx, 0x12345678", CF_SAFE},
    {"add r8, 0x7f", CF_SAFE},
    {"sub rdx, r9", CF_SAFE},
    {"xor r9, r9", CF_SAFE},
    {"xor ecx, ecx", CF_SAFE},
    {"and r10, r11", CF_SAFE},
    {"or rsi, rdi", CF_SAFE},
    {"imul r10, r11, 0x12345678", CF_SAFE},
    {"imul rcx, rdx", CF_SAFE},
    {"imul r8, r9, 0x7", CF_SAFE},
    {"shl rdx, 3", CF_SAFE},
    {"shr r8, 1", CF_SAFE},
    {"lea r8, [r9+r10*8+0x12345678]", CF_SAFE},
    {"lea rcx, [rdx+rsi]", CF_SAFE},
    {"lea r8, [rcx+rsp]", CF_SAFE | CF_OPTSENS},
    {"lea r9, [2*rcx]", CF_SAFE | CF_OPTSENS},
    {"lea rdi, [rsi+0x10]", CF_SAFE},
    {"lea r11, [4*r10+0x100]", CF_SAFE},
    {"inc rcx", CF_SAFE},
    {"dec r8", CF_SAFE},
    {"neg rdx", CF_SAFE},
    {"not r9", CF_SAFE},
    {"mov rcx, rdx", CF_SAFE},
    {"mov r8d, r9d", CF_SAFE},
    {"movzx ecx, dl", CF_SAFE},
    {"xchg rcx, rdx", CF_SAFE},
    {"add rcx, rdx ; x1 <- x1 + x2", CF_SAFE},
    {"\tsub  r8 ,r9", CF_SAFE},
    {"clc", CF_SAFE},
    {"test cl, cl", CF_SAFE},
    {"setc dl", CF_SAFE},
    // the accumulator forms of xchg and literals that do not fit 64 bits (strtoul saturates): unusual but accepted input
    {"xchg rax, rcx", 0},
    {"xchg eax, r9d", 0},
    {"xchg ax, dx", 0},
    {"xchg rax, r11", 0},
    {"mov rax, 0x10000000000000000", CF_EITHER},
    {"mov rcx, 99999999999999999999", CF_EITHER},
    {"lea rax, [rbx+0x10000000000000000]", CF_EITHER},
    {"add rcx, 0x100000000000000000000", CF_EITHER},
    {"mov rdx, -99999999999999999999999", CF_EITHER},
    // literals in the upper half of 32 bits: the narrowing decision of the mov-immediate modes is made per line
    {"mov rcx, 0x80000000", CF_SAFE},
    {"mov rdx, 0xffffffff", CF_SAFE},
    {"mov r8, 0xdeadbeef", CF_SAFE},
    {"mov r11, 0x00000000ffffffff", CF_SAFE},
    {"mov rcx, 4294967295", CF_SAFE},
    {"mov r9, 2147483648", CF_SAFE},
    // the shortest literals there are: one decimal digit (whatever follows the digit in memory is not part of it)
    {"mov rcx, 5", CF_SAFE},
    {"mov r10, 7", CF_SAFE},
    {"mov rdx, 0", CF_SAFE},
    {"add rcx, 3", CF_SAFE},
    {"sub r8, 9", CF_SAFE},
    {"and rdx, 8", CF_SAFE},
    {"mov ecx, 1", CF_SAFE},
    {"shl r9, 2", CF_SAFE},
    {"cmp r11, 4", CF_SAFE},
    // bytes outside printable ASCII at the end of a line: accepted or rejected, but the same way every time
    {"mov rax, 0x7fffffff\x7f", CF_EITHER},
    {"nop\x7f", CF_EITHER},
    {"add rcx, rdx \x7f", CF_EITHER},
    {"mov rax, 0x000000007fffffff\x01", CF_EITHER},
    // option-sensitive probes of the documentation
    {"lea r15, [rax+rsp]", CF_OPTSENS},
    {"lea r15, [2*rax]", CF_OPTSENS},
    // long encodings (12..14 bytes)
    {"imul rax, [eax+ecx*8+0x12345678], 0x12345678", 0},
    {"add word [r8d+r9d*8+0x12345678], 0x1234", 0},
    {"mov qword [r8+r9*8+0x12345678], 0x12345678", 0},
    {"mov dword [eax+ecx*4+0x1000], 0x7fffffff", 0},
    {"vaddpd ymm1, ymm2, [r8+r9*4+0x12345678]", 0},
    {"vpaddq ymm10, ymm11, ymm12", 0},
    {"mulx r8, r9, [rsi+0x1000]", 0},
    {"adcx r8, [rsi+0x20]", 0},
    {"shrd rax, rbp, 51", 0},
    {"jmp 0x10", 0},
    {"jmp -0x20", 0},
    {"jne 0x1000", 0},
    {"call 0x100", 0},
    {"jmp long 0x10", 0},
    {"push 0x1000", 0},
    {"push rax", 0},
    {"pop rbx", 0},
    {"test al, al", 0},
    {"cmp byte [rsi + 0x08], -0x1", 0},
    {"movq xmm1, rax", 0},
    {"paddq xmm1, xmm2", 0},
    {"pxor mm1, mm2", 0},
    {"sfence", 0},
    {"cpuid", 0},
    {"rdtsc", 0},
    // long trailing comments (the instruction part is short; the physical line exceeds 100 characters, as in test/run.c)
    {"mov rcx, rdx; x73, copying x13 here, cause x13 is needed in a reg for other than x73, namely all: , x73--x74, size: 1", CF_SAFE},
    {"add rcx, 0x12345678 ; could be done better, if r0 has been u8 as well -- padding padding padding padding padding ret", CF_SAFE},
    {"mov rax, 0x1122334455667788 ; a constant, followed by a rather long explanation of why this constant and no other: nop nop ret", CF_SAFE | CF_RAX},
    {"xor r9, r9                                                                                            ; mov rax, 1", CF_SAFE},
    {"lea r8, [r9+r10*8+0x12345678] ;;;; ---- ==== a comment of more than two hundred characters in total: lorem ipsum dolor sit amet, consectetur adipiscing elit, sed do eiusmod tempor incididunt ut labore et dolore magna aliqua", CF_SAFE},
    {"mov [ rsp + 0x48 ], rbx; saving to stack", 0},
    {"imul r11, [ rsi + 0x20 ], 0x13; x1 <- arg1[4] * 0x13", 0},
    // fillers
    {"", CF_FILLER},
    {"   ", CF_FILLER},
    {"\t", CF_FILLER},
    {"; just a comment", CF_FILLER},
    {"   ; indented comment, with mov rax, 1 inside", CF_FILLER},
    {"label:", CF_FILLER},
    {".loop_1:", CF_FILLER},
    {"section .text", CF_FILLER},
    {"SECTION .data", CF_FILLER},
    {"global my_function", CF_FILLER},
    {"% macro line", CF_FILLER},
    // rejected when assembled alone
    {"mov [rax],[rbx]; cannot mov mem to mem", CF_REJECT},
    {"shrd rax, [rsp], 9; arg2 must be a register.", CF_REJECT},
    {"invalid rax,1", CF_REJECT},
    {"lea rax, [rsp+r14*9] ; invalid memory syntax", CF_REJECT},
    {"lea rax, [rsp+rsp] ; invalid memory syntax", CF_REJECT},
    {"lea rax, [rbp+4*rsp] ; invalid memory syntax", CF_REJECT},
    {"invalid instruction ; fairly obvious", CF_REJECT},
    {"and not_a_register  ; fairly obvious", CF_REJECT},
    {"mulx rax, [rsp], 0x01 ; mulx does not support imms", CF_REJECT},
    {"imul [rax], rax, 0x1", CF_REJECT},
    {"bogus rax", CF_REJECT},
    {"mov rax, rbx, rcx, rdx", CF_REJECT},
    {"add rax", CF_REJECT},
};

static std::vector<CorpusLine> g_all;
static std::vector<int> g_instr, g_fill, g_rej, g_safe, g_rax, g_opt, g_bylen[16];
static int g_ret = -1, g_dropped = 0, g_unsafe = 0;
static bool g_collapsed = false;
static std::unordered_map<std::string, int> g_flags;
static const std::vector<int> g_empty;

const std::vector<CorpusLine> &corpus_all() { return g_all; }
const std::vector<int> &corpus_instr() { return g_instr; }
const std::vector<int> &corpus_fillers() { return g_fill; }
const std::vector<int> &corpus_rejects() { return g_rej; }
const std::vector<int> &corpus_safe() { return g_safe; }
const std::vector<int> &corpus_rax() { return g_rax; }
const std::vector<int> &corpus_optsens() { return g_opt; }
const std::vector<int> &corpus_by_len(int len) { return (len >= 0 && len < 16) ? g_bylen[len] : g_empty; }
int corpus_ret() { return g_ret; }
int corpus_dropped() { return g_dropped; }
int corpus_unsafe() { return g_unsafe; }
int corpus_flags(const std::string &text) {
  auto it = g_flags.find(text);
  return it == g_flags.end() ? 0 : it->second;
}

bool corpus_init(std::string *why) {
  if (!g_all.empty()) return true;
  std::vector<CorpusLine> cand;
  std::unordered_map<std::string, int> seen;
  for (const Hand &h : HAND) {
    if (seen.count(h.text)) continue;
    seen[h.text] = 1;
    CorpusLine c;
    c.text = h.text;
    c.flags = h.flags;
    cand.push_back(c);
  }
  for (const char *t : HARVESTED) {
    if (seen.count(t)) continue;
    seen[t] = 1;
    CorpusLine c;
    c.text = t;
    cand.push_back(c);
  }
  // forward pass: fill the table
  for (CorpusLine &c : cand)
    for (int o = 0; o < 12; o++) enc(c.text, o);
  // reverse pass on another fill pattern: every entry must reproduce
  bool stable = true;
  for (size_t i = cand.size(); i-- > 0;)
    for (int o = 11; o >= 0; o--)
      if (!enc_recheck(cand[i].text, o, (i & 1) ? 0x00 : 0xFF)) {
        if (stable && why) *why = "isolated encoding of \"" + cand[i].text + "\" is not reproducible";
        stable = false;
      }
  for (CorpusLine &c : cand) {
    bool all_ok = true, all_fill = true, all_rej = true, sens = false, crashed = false;
    const Enc &e0 = enc(c.text, 0);
    for (int o = 0; o < 12; o++) {
      const Enc &e = enc(c.text, o);
      crashed |= e.crashed;
      all_ok &= e.ok && e.len > 0;
      all_fill &= e.filler();
      all_rej &= !e.ok;
      if (e.ok != e0.ok || e.len != e0.len || memcmp(e.bytes, e0.bytes, e.len)) sens = true;
    }
    bool admit;
    if ((c.flags & CF_EITHER) && !crashed && all_rej) c.flags = CF_REJECT;  // this tree rejects it: use it as a rejected line
    if (crashed)
      admit = false;
    else if (c.flags & CF_FILLER)
      admit = all_fill;
    else if (c.flags & CF_REJECT)
      admit = all_rej;
    else
      admit = all_ok;
    if (admit && (c.flags & CF_SAFE) && !(c.flags & CF_RET)) {
      // executed in a sandwich under every option state; a line that does not behave stays in the
      // corpus as an ordinary instruction line but is never executed
      if (!validate_exec_safe(c.text, (c.flags & CF_RAX) != 0)) {
        c.flags &= ~(CF_SAFE | CF_RAX);
        g_unsafe++;
      }
    }
    if (!admit) {
      g_dropped++;
      continue;
    }
    if (sens) c.flags |= CF_OPTSENS;
    else c.flags &= ~CF_OPTSENS;
    c.len = enc(c.text, opt_index(2, 1, 1)).len;
    int idx = (int)g_all.size();
    g_all.push_back(c);
    g_flags[c.text] = c.flags;
    if (c.flags & CF_FILLER)
      g_fill.push_back(idx);
    else if (c.flags & CF_REJECT)
      g_rej.push_back(idx);
    else {
      g_instr.push_back(idx);
      if (c.len < 16) g_bylen[c.len].push_back(idx);
      if (c.flags & CF_OPTSENS) g_opt.push_back(idx);
      if (c.flags & CF_RET)
        g_ret = idx;
      else if (c.flags & CF_RAX)
        g_rax.push_back(idx);
      else if (c.flags & CF_SAFE)
        g_safe.push_back(idx);
    }
  }
  lib_geometry();  // observed once, before any run
  if (g_instr.size() < 40 || g_ret < 0) {
    if (why) *why = "corpus collapsed: only " + std::to_string(g_instr.size()) + " instruction lines are accepted by this tree";
    g_collapsed = true;
    return false;
  }
  return stable;
}
bool corpus_collapsed() { return g_collapsed; }

}  // namespace sim
