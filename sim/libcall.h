// Thin, header-independent view of the AssemblyLine public API.  libcall.cc is the only
// translation unit that includes /repo/src/assemblyline.h; it is recompiled from the working
// tree by every check, together with the library sources, so a changed header (enum order,
// prototypes) is picked up and the rest of the harness never goes stale.
#pragma once
#include <stddef.h>
#include <stdint.h>

namespace lib {
typedef void *inst_t;

enum Setter { S_MOV_IMM = 0, S_SWAP = 1, S_NOBASE = 2, S_SIB = 3, S_SET_ALL = 4, S_NSETTERS = 5 };
// abstract option values of the model; mapped onto the header's enum in libcall.cc
enum Val { V_STRICT = 0, V_NASM = 1, V_SMART = 2 };

inst_t create(uint8_t *buf, int len);
int destroy(inst_t);
int asm_str(inst_t, const char *text, bool alias);
int count_str(inst_t, char *text, int c, int *dest, bool alias);
int asm_file(inst_t, char *path, bool alias);
int count_file(inst_t, char *path, int c, int *dest);
void set_chunk(inst_t, size_t c);
void set_debug(inst_t, bool on);
int get_offset(inst_t);
void set_offset(inst_t, int k);
void *get_code(inst_t, bool alias);
int bin_file(inst_t, const char *path);
// value: 0/1/2 = STRICT/NASM/SMART of the real header; anything else is passed through as a raw integer + 100
void setter(inst_t, int which, int value);
int raw_value(int abstract_value);
// the CLI's main(), present only when the check links tools/asmline.c
int cli_main(int argc, char **argv);
bool cli_present();
// two unsynchronised threads increment a plain variable in instrumented code (TSan canary)
int race_canary();
}  // namespace lib
