// Plans: the unit of execution, of replay and of minimisation (DESIGN 4.1).
// A plan is derived from the seed by a generator; the runner executes the plan, never the PRNG.
#pragma once
#include "json.h"
#include "rng.h"
#include "simos.h"

#include <string>
#include <vector>

namespace sim {

enum OpKind {
  OP_CREATE = 0,
  OP_DESTROY,
  OP_SETTER,
  OP_CHUNK,
  OP_OFFSET,
  OP_DEBUG,
  OP_ASM,
  OP_COUNT,
  OP_ASM_FILE,
  OP_COUNT_FILE,
  OP_BIN_FILE,
  OP_EXEC,
  OP_LAUNCH,
  OP_REFILL,    // the caller overwrites its own buffer with a fill pattern (it is the caller's memory)
  OP_SABOTAGE,  // canaries only: the simulator itself commits the sin the oracle looks for (DESIGN 5.5)
  OP_NKINDS
};
const char *op_name(int k);

struct Op {
  int kind = OP_ASM;
  int slot = 0;       // instance slot within the task
  uint64_t uid = 0;   // stable identity (survives minimisation); keys environment coins
  // create
  long n = -1;        // caller buffer length; -1 = library-managed buffer
  int fill = 0xCC;    // initial contents of the caller buffer: 0..255 or -1 = random
  int guard = 0;      // 0 = inaccessible page directly behind the buffer, 1 = directly in front
  bool twin = false;  // mirror every call onto a second instance with a large caller buffer
  // setter
  int which = 0;
  int value = 0;
  // chunk size / offset / counting boundary / debug flag
  long c = 0;
  long k = 0;
  bool on = false;
  // text
  std::vector<std::string> lines;
  bool final_nl = true;
  int sep = 0;  // line end used when joining the lines: 0 LF, 1 CR LF, 2 lone CR (the parser accepts all three)
  std::string path;
  bool alias = false;       // use the deprecated alias of the entry point
  bool fresh_twin = false;  // C15: repeat this call on a fresh instance brought to the same settings
  std::vector<EnvAns> env;
  // launch (C20)
  std::vector<std::string> argv;
  std::string input;        // program text
  bool from_stdin = false;
  std::vector<int> chunks;  // stdin delivery sizes
  std::string text() const;  // lines joined with '\n'
};

struct Task {
  std::vector<Op> ops;
};

struct Preempt {
  int task = 0;
  long at = 0;
  int to = 0;
};

struct Plan {
  std::string prop;
  uint64_t seed = 0;
  long run = 0;
  std::string variant;
  std::string binary;  // "" / "asan": default build; "tsan": the violation is a ThreadSanitizer report, replay with the TSan build
  World world;
  bool probe = false;    // C12: classify every live instance after every setter/create/destroy
  bool recover = false;  // C17: after an operation failed because of an injected fault, set_offset(previous offset)
  std::vector<Task> tasks;
  std::vector<int> order;  // coarse schedule: task index per step (modulo the runnable tasks)
  bool fine = false;
  std::vector<Preempt> preempt;
  // expected violation (replay files)
  Json expect;
  size_t n_ops() const {
    size_t s = 0;
    for (auto &t : tasks) s += t.ops.size();
    return s;
  }
};

Json plan_to_json(const Plan &p);
bool plan_from_json(const Json &j, Plan &p, std::string *err);
uint64_t plan_hash(const Plan &p);
std::vector<std::string> split_lines(const std::string &text);
// a path of exactly `len` characters under /sim whose components stay below NAME_MAX; the directories it runs through are
// added to the world (kind 2), so the path is creatable (and, if `exists_as` >= 0, names a file of that kind holding `data`)
std::string long_path(World &w, long len, const char *stem, bool make_dirs = true);

// ---- generators -------------------------------------------------------------------------------
struct GenParams {
  std::string prop;
  uint64_t seed = 1;
  long run = 0;
  bool thorough = false;
  std::string variant;  // optional sub-profile
};
Plan generate(const GenParams &g);

}  // namespace sim
