// alsim: run | replay | shrink | gen | uniq | selftest
#include "corpus.h"
#include "libcall.h"
#include "model.h"
#include "plan.h"
#include "runner.h"
#include "simos.h"

#include <errno.h>
#include <fcntl.h>
#include <signal.h>
#include <stdlib.h>
#include <string.h>
#include <sys/wait.h>
#include <time.h>
#include <unistd.h>

#include <algorithm>
#include <fstream>
#include <functional>
#include <map>
#include <set>
#include <sstream>

using namespace sim;

extern "C" void __sanitizer_set_death_callback(void (*cb)(void));
extern "C" __attribute__((used)) const char *__asan_default_options() {
  return "exitcode=77:detect_leaks=0:handle_segv=0:handle_sigbus=0:handle_sigill=0:handle_sigfpe=0:handle_abort=0:"
         "allocator_may_return_null=1:detect_stack_use_after_return=0:abort_on_error=0:print_summary=1";
}
extern "C" __attribute__((used)) const char *__tsan_default_options() {
  return "exitcode=66:halt_on_error=1:report_signal_unsafe=0:second_deadlock_stack=0:report_thread_leaks=0";
}

extern "C" long fine_pairs(void);
extern "C" ssize_t __real_write(int, const void *, size_t);
namespace sim {
void canary_plans(const std::string &prop, std::vector<std::pair<std::string, std::pair<Plan, std::string>>> &out);
}

namespace {

volatile long g_cur_run = -1;
int g_report_fd = 1;        // where D/verdict lines of the death callback go
bool g_replay_mode = false;  // death callback exits 1 (violation reproduced)

__attribute__((unused)) void death_cb() {
  char b[256];
  // (on a line of its own even if the process dies while a buffered line is half way out)
  int n = snprintf(b, sizeof b, "\nD %ld %d %d %s\n", (long)g_cur_run, (int)g_cur_task, (int)g_cur_op, g_cur_op_kind);
  if (__real_write(g_report_fd, b, (size_t)n) < 0) {}  // not the simulated write(2): the process may die inside library code
  if (g_replay_mode) _exit(1);
}

double now_s() {
  struct timespec ts;
  clock_gettime(CLOCK_MONOTONIC, &ts);  // harness wall clock for budgets only; never visible to a run
  return (double)ts.tv_sec + (double)ts.tv_nsec * 1e-9;
}

std::string read_file(const std::string &p) {
  std::ifstream f(p, std::ios::binary);
  std::stringstream ss;
  ss << f.rdbuf();
  return ss.str();
}

// ---- one case = one run index: usually one plan; C17: scenario x every single fault + seeded multi-faults ----
struct Found {
  Plan plan;
  Verdict v;
  uint64_t event_hash;
};
struct CaseOut {
  std::vector<Found> found;  // in-scope violations and out-of-scope observations
  uint64_t hash = 0;         // combined event hash
  uint64_t obs = 0;          // combined observation hash
  uint64_t plan_hash = 0;
  long evaluations = 0;
  long nontrivial = 0;
  std::vector<uint64_t> nontrivial_hashes;
  RunStats st;
  long fault_points = 0, fault_points_run = 0, multi_fault_runs = 0, scenarios = 0;
};

void merge_stats(RunStats &a, const RunStats &b) {
  a.ops += b.ops;
  a.ops_skipped += b.ops_skipped;
  a.asm_checked += b.asm_checked;
  a.asm_failed_expected += b.asm_failed_expected;
  a.asm_unspec += b.asm_unspec;
  a.instr_lines += b.instr_lines;
  a.twin_compared += b.twin_compared;
  a.fresh_twins += b.fresh_twins;
  a.execs += b.execs;
  a.probes += b.probes;
  a.faults_fired += b.faults_fired;
  a.steps += b.steps;
  a.mremap_moves += b.mremap_moves;
  a.growths += b.growths;
  a.file_ops += b.file_ops;
  a.bin_files += b.bin_files;
  a.launches += b.launches;
  a.switches += b.switches;
  for (auto &kv : b.counters) a.counters[kv.first] += kv.second;
}

Json expect_json(const Verdict &v, uint64_t eh) {
  Json e = Json::Obj();
  e.set("class", v.cls);
  e.set("op_kind", v.op_kind);
  e.set("task", v.task);
  e.set("op", v.op);
  e.set("detail", v.detail);
  e.setb("in_scope", v.in_scope);
  char hb[32];
  snprintf(hb, sizeof hb, "%016llx", (unsigned long long)eh);
  e.set("event_hash", hb);
  return e;
}

bool g_print_plans = false;

void run_one(const Plan &p, CaseOut &out, bool trace, RunResult *keep = nullptr) {
  if (g_print_plans) {
    fprintf(real_out(), "P %s\n", plan_to_json(p).dump().c_str());
    fflush(real_out());
  }
  RunOptions o;
  o.want_trace = trace;
  RunResult r = run_plan(p, o);
  out.evaluations++;
  out.hash = mix64(out.hash, r.event_hash);
  out.obs = mix64(out.obs, r.obs_hash);
  merge_stats(out.st, r.st);
  bool nontriv = r.nontrivial;
  if (p.prop == "C17") nontriv = r.st.faults_fired > 0 && (r.st.asm_checked + r.st.bin_files) > 0;
  if (nontriv) {
    out.nontrivial++;
    out.nontrivial_hashes.push_back(plan_hash(p));
  }
  if (r.v.violated) {
    Found f;
    f.plan = p;
    f.v = r.v;
    f.event_hash = r.event_hash;
    f.plan.expect = expect_json(r.v, r.event_hash);
    out.found.push_back(f);
  }
  if (keep) *keep = r;
}

const struct Flavour {
  int call;
  int ans;
  int err;
} FLAVOURS[] = {
    {K_MALLOC, ANS_FAIL, ENOMEM},    {K_MMAP_ANON, ANS_FAIL, ENOMEM}, {K_MMAP_ANON, ANS_FAIL, EAGAIN}, {K_MMAP_FILE, ANS_FAIL, ENOMEM},
    {K_MMAP_FILE, ANS_FAIL, ENODEV}, {K_MREMAP, ANS_FAIL, ENOMEM},    {K_MUNMAP, ANS_FAIL, EINVAL},    {K_OPEN, ANS_FAIL, ENOENT},
    {K_OPEN, ANS_FAIL, EACCES},      {K_OPEN, ANS_FAIL, EMFILE},      {K_FSTAT, ANS_FAIL, EIO},        {K_READ, ANS_FAIL, EIO},
    {K_FOPEN, ANS_FAIL, EACCES},     {K_FOPEN, ANS_FAIL, ENOSPC},     {K_FOPEN, ANS_FAIL, EMFILE},     {K_FWRITE, ANS_SHORT, ENOSPC},
    {K_FWRITE, ANS_FAIL, EIO},       {K_FCLOSE, ANS_FAIL, EIO},       {K_FCLOSE, ANS_FAIL, ENOSPC},    {K_FCLOSE, ANS_FAIL, EINTR},     {K_FOPEN, ANS_FAIL, EINTR},
    {K_OPEN, ANS_FAIL, EINTR},       {K_MREMAP, ANS_FAIL, EAGAIN},    {K_MUNMAP, ANS_FAIL, ENOMEM},    {K_FSTAT, ANS_FAIL, EOVERFLOW},
    {K_MMAP_FILE, ANS_FAIL, EAGAIN}, {K_FWRITE, ANS_FAIL, EFBIG},    {K_CWRITE, ANS_FAIL, ENOSPC},
    {K_CWRITE, ANS_SHORT, ENOSPC},   {K_CWRITE, ANS_FAIL, EIO},
    // transient short counts (not refusals): success is allowed, but only with the complete file
    {K_FWRITE, ANS_SHORT, EINTR},    {K_CWRITE, ANS_SHORT, EINTR},
};

bool injectable(int call) {
  for (const Flavour &f : FLAVOURS)
    if (f.call == call) return true;
  return false;
}

void case_c17(const GenParams &gp, CaseOut &out) {
  Plan base = generate(gp);
  base.recover = true;
  out.plan_hash = plan_hash(base);
  RunResult r0;
  run_one(base, out, true, &r0);
  out.scenarios++;
  if (r0.v.violated) return;
  // fault points: every intercepted call of an injectable kind, addressed by (op, kind, nth within op)
  struct Point {
    int task, op, call, nth;
  };
  std::vector<Point> pts;
  for (size_t i = 0; i < r0.traces.size(); i++)
    for (const CallRec &c : r0.traces[i])
      if (injectable(c.call)) pts.push_back(Point{r0.trace_ops[i].first, r0.trace_ops[i].second, c.call, c.nth});
  out.fault_points += (long)pts.size();
  Rng r(mix64(gp.seed, (uint64_t)gp.run * 977 + 5));
  // an operation that issues the same call very often (e.g. unbuffered byte-wise I/O in some tree) is sampled:
  // the first eight, the last four and four random ones of each (operation, kind); the evidence then shows
  // fault_points_executed < fault_points_total and the enumeration is not called complete
  {
    std::map<std::pair<long, int>, std::vector<size_t>> groups;
    for (size_t i = 0; i < pts.size(); i++) groups[{(long)pts[i].task * 100000 + pts[i].op, pts[i].call}].push_back(i);
    std::vector<bool> keep(pts.size(), true);
    for (auto &kv : groups) {
      std::vector<size_t> &g = kv.second;
      if (g.size() <= 16) continue;
      for (size_t k = 8; k + 4 < g.size(); k++) keep[g[k]] = false;
      for (int k = 0; k < 4; k++) keep[g[8 + r.below(g.size() - 12)]] = true;
    }
    std::vector<Point> kept;
    for (size_t i = 0; i < pts.size(); i++)
      if (keep[i]) kept.push_back(pts[i]);
    pts.swap(kept);
  }
  auto attach = [&](Plan &p, const Point &pt, Rng &rr, int pick_flavour) {
    std::vector<const Flavour *> fl;
    for (const Flavour &f : FLAVOURS)
      if (f.call == pt.call) fl.push_back(&f);
    const Flavour *f = fl[pick_flavour >= 0 ? (size_t)pick_flavour % fl.size() : rr.below(fl.size())];
    EnvAns a;
    a.call = pt.call;
    a.nth = pt.nth;
    a.ans = f->ans;
    a.err = f->err;
    a.arg = f->ans == ANS_SHORT ? (long)rr.below(5000) + (f->err == EINTR ? 1 : 0) : 0;
    p.tasks[pt.task].ops[pt.op].env.push_back(a);
  };
  for (const Point &pt : pts) {
    int nfl = 0;
    for (const Flavour &f : FLAVOURS) nfl += f.call == pt.call;
    int reps = gp.thorough ? nfl : 1;
    for (int k = 0; k < reps; k++) {
      Plan v = base;
      v.variant = "single-fault";
      attach(v, pt, r, gp.thorough ? k : -1);
      run_one(v, out, false);
      out.fault_points_run++;
    }
  }
  // seeded multi-fault runs
  int multi = pts.size() >= 2 ? (gp.thorough ? 6 : 2) : 0;
  for (int m = 0; m < multi; m++) {
    Plan v = base;
    v.variant = "multi-fault";
    int nf = 2 + (int)r.below(2);
    std::set<size_t> used;
    for (int k = 0; k < nf; k++) {
      size_t idx = r.below(pts.size());
      if (!used.insert(idx).second) continue;
      attach(v, pts[idx], r, -1);
    }
    run_one(v, out, false);
    out.multi_fault_runs++;
  }
}

void run_case(const GenParams &gp, CaseOut &out) {
  if (gp.prop == "C17") {
    case_c17(gp, out);
    return;
  }
  Plan p = generate(gp);
  out.plan_hash = plan_hash(p);
  run_one(p, out, false);
}

// ---- canaries: the simulator itself commits the sin; the oracle must flag it (DESIGN 5.5) -----------------
struct Canary {
  const char *name;
  const char *prop_scope;  // comma list of properties for which it is relevant, "" = all
};

// executes `p`, but lets `sin` run right after operation index `at` of task 0 (between two ops)
int run_canaries(const std::string &prop) {
  int failed = 0, total = 0;
  auto expect_cls = [&](const char *name, const Plan &p, const char *cls) {
    // every canary in a process of its own: a canary that ends in a crash inside the library must not leave the next
    // one a library in mid-call (a tree may hold a lock or a flag across the call)
    RunResult r;
    long sab_delta = 0;
    {
      int fds[2];
      if (pipe(fds) != 0) return;
      fflush(real_out());
      pid_t pid = fork();
      if (pid == 0) {
        close(fds[0]);
        g_report_fd = fds[1];
        alarm(120);
        long sab0 = stats().sabotage_applied;
        RunResult rr = run_plan(p, RunOptions());
        std::string line = std::string("R ") + (rr.v.violated ? "1" : "0") + " " + std::to_string(stats().sabotage_applied - sab0) + " " +
                           (rr.v.cls.empty() ? "-" : rr.v.cls) + " " + Json::Str(rr.v.detail).dump() + "\n";
        if (write(fds[1], line.data(), line.size()) < 0) {}
        _exit(0);
      }
      close(fds[1]);
      std::string buf;
      char tmp[4096];
      ssize_t n;
      while ((n = read(fds[0], tmp, sizeof tmp)) > 0) buf.append(tmp, (size_t)n);
      close(fds[0]);
      int st = 0;
      waitpid(pid, &st, 0);
      size_t at = buf.rfind("R ");
      char cls[64] = {0};
      int viol = 0, consumed = 0;
      if (at != std::string::npos && sscanf(buf.c_str() + at, "R %d %ld %63s %n", &viol, &sab_delta, cls, &consumed) >= 3) {
        r.v.violated = viol != 0;
        r.v.cls = strcmp(cls, "-") ? cls : "";
        Json dj;
        if (consumed > 0 && Json::parse(buf.substr(at + (size_t)consumed), dj)) r.v.detail = dj.s;
      } else {
        // the child died of a sanitizer report (or a signal): that is how the sanitizer class shows
        r.v.violated = true;
        r.v.cls = buf.find("D ") != std::string::npos || (WIFEXITED(st) && WEXITSTATUS(st) == 77) ? "sanitizer" : "crash";
        r.v.detail = "the process running the canary died";
      }
    }
    // a canary whose sin needs a particular OS call (a moving mremap) is not applicable to a tree that never makes that call
    if (std::string(name) == "stale_mremap_address" && sab_delta == 0) {
      fprintf(real_out(), "CANARY-SKIPPED %s: the library made no mremap call that may move the mapping\n", name);
      return;
    }
    total++;
    // several classes may be acceptable ("a|b"): how a stale mapping address surfaces depends on what the library does next
    bool ok = false;
    if (r.v.violated) {
      std::string want = std::string("|") + cls + "|";
      ok = want.find("|" + r.v.cls + "|") != std::string::npos;
    }
    if (!ok) {
      failed++;
      fprintf(real_out(), "CANARY-FAILED %s: expected class %s, got %s (%s)\n", name, cls, r.v.violated ? r.v.cls.c_str() : "no violation",
              r.v.detail.c_str());
    }
  };
  std::vector<std::pair<std::string, std::pair<Plan, std::string>>> plans;
  canary_plans(prop, plans);
  for (auto &c : plans) expect_cls(c.first.c_str(), c.second.first, c.second.second.c_str());
  fprintf(real_out(), "CANARIES %d/%d\n", total - failed, total);
  return failed ? 2 : 0;
}

// ---- shrinking ---------------------------------------------------------------------------------------------------
struct ShrinkCtx {
  std::string want_sig;
  bool want_scope = true;
  long execs = 0;
  long budget = 3000;
  double deadline = 0;
};

// run a candidate in a forked child; returns the signature ("" = no violation)
std::string eval_forked(const Plan &p, bool *in_scope, uint64_t *eh, std::string *detail) {
  int fds[2];
  if (pipe(fds) != 0) return "";
  fflush(real_out());
  pid_t pid = fork();
  if (pid == 0) {
    close(fds[0]);
    g_report_fd = fds[1];
    alarm(60);
    RunResult r = run_plan(p, RunOptions());
    std::string line = "R " + (r.v.violated ? r.v.signature() : std::string("-")) + " " + (r.v.in_scope ? "1" : "0") + " " +
                       std::to_string((unsigned long long)r.event_hash) + " " + Json::Str(r.v.detail).dump() + "\n";
    if (write(fds[1], line.data(), line.size()) < 0) {}
    _exit(0);
  }
  close(fds[1]);
  std::string buf;
  char tmp[4096];
  ssize_t n;
  while ((n = read(fds[0], tmp, sizeof tmp)) > 0) buf.append(tmp, (size_t)n);
  close(fds[0]);
  int status = 0;
  waitpid(pid, &status, 0);
  std::string sig;
  if (in_scope) *in_scope = false;
  std::istringstream is(buf);
  std::string line;
  while (std::getline(is, line)) {
    if (line.compare(0, 2, "R ") == 0) {
      std::istringstream ls(line.substr(2));
      std::string s, sc, h;
      ls >> s >> sc >> h;
      if (s != "-") sig = s;
      if (in_scope) *in_scope = sc == "1";
      if (eh) *eh = strtoull(h.c_str(), nullptr, 10);
      if (detail) {
        std::string rest;
        std::getline(ls, rest);
        Json j;
        if (Json::parse(rest, j) && j.type == Json::STR) *detail = j.s;
      }
    } else if (line.compare(0, 2, "D ") == 0) {
      // sanitizer death inside operation: "D run task op kind"
      std::istringstream ls(line.substr(2));
      long run;
      int t, o;
      std::string kind;
      ls >> run >> t >> o >> kind;
      sig = "sanitizer@" + kind;
      if (in_scope) *in_scope = true;
      if (detail) *detail = "sanitizer report inside the operation (see stderr of the replay)";
      if (eh) *eh = 0;
    }
  }
  if (sig.empty() && WIFSIGNALED(status)) {
    sig = "crash@process";
    if (in_scope) *in_scope = true;
    if (detail) *detail = "worker process died with signal " + std::to_string(WTERMSIG(status));
  }
  return sig;
}

bool still_fails(ShrinkCtx &c, const Plan &p) {
  if (c.execs >= c.budget || now_s() > c.deadline) return false;
  c.execs++;
  bool sc = false;
  std::string s = eval_forked(p, &sc, nullptr, nullptr);
  return s == c.want_sig && sc == c.want_scope;
}

bool exhausted(const ShrinkCtx &c) { return c.execs >= c.budget || now_s() > c.deadline; }

template <class T> bool ddmin_vec(ShrinkCtx &c, Plan &p, std::function<std::vector<T> &(Plan &)> acc) {
  bool any = false;
  size_t chunk = std::max<size_t>(1, acc(p).size() / 2);
  while (chunk >= 1 && !acc(p).empty() && !exhausted(c)) {
    bool removed = false;
    for (size_t start = 0; start < acc(p).size() && !exhausted(c);) {
      Plan q = p;
      std::vector<T> &v = acc(q);
      size_t end = std::min(v.size(), start + chunk);
      v.erase(v.begin() + (long)start, v.begin() + (long)end);
      if (still_fails(c, q)) {
        p = q;
        removed = any = true;
      } else
        start += chunk;
    }
    if (!removed) {
      if (chunk == 1) break;
      chunk = chunk / 2;
    }
  }
  return any;
}

Plan shrink_plan(const Plan &orig, const std::string &sig, bool scope, long budget, double seconds, long *execs) {
  ShrinkCtx c;
  c.want_sig = sig;
  c.want_scope = scope;
  c.budget = budget;
  c.deadline = now_s() + seconds;
  Plan p = orig;
  bool progress = true;
  int rounds = 0;
  while (progress && rounds++ < 6 && !exhausted(c)) {
    progress = false;
    // whole tasks
    for (size_t t = p.tasks.size(); t-- > 0 && p.tasks.size() > 1;) {
      Plan q = p;
      q.tasks.erase(q.tasks.begin() + (long)t);
      for (Preempt &x : q.preempt)
        if (x.task > (int)t) x.task--;
      if (still_fails(c, q)) {
        p = q;
        progress = true;
      }
    }
    // operations of each task (faults and environment answers travel with their op)
    for (size_t t = 0; t < p.tasks.size(); t++)
      progress |= ddmin_vec<Op>(c, p, [t](Plan &x) -> std::vector<Op> & { return x.tasks[t].ops; });
    // world
    {
      Plan q = p;
      if (q.world.mem_policy != 0) {
        q.world.mem_policy = 0;
        if (still_fails(c, q)) {
          p = q;
          progress = true;
        }
      }
      q = p;
      if (q.world.fd0_free) {
        q.world.fd0_free = false;
        if (still_fails(c, q)) {
          p = q;
          progress = true;
        }
      }
      q = p;
      if (q.world.fd_limit) {
        q.world.fd_limit = 0;
        if (still_fails(c, q)) {
          p = q;
          progress = true;
        }
      }
      q = p;
      if (q.world.behind != 0) {
        q.world.behind = 0;
        if (still_fails(c, q)) {
          p = q;
          progress = true;
        }
      }
      for (size_t f = p.world.files.size(); f-- > 0;) {
        q = p;
        q.world.files.erase(q.world.files.begin() + (long)f);
        if (still_fails(c, q)) {
          p = q;
          progress = true;
          continue;
        }
        // shrink the file's lines
        std::vector<std::string> ls = split_lines(p.world.files[f].data);
        if (ls.size() > 1) {
          size_t chunk = ls.size() / 2;
          while (chunk >= 1) {
            bool rem = false;
            for (size_t st = 0; st < ls.size();) {
              std::vector<std::string> l2 = ls;
              l2.erase(l2.begin() + (long)st, l2.begin() + (long)std::min(l2.size(), st + chunk));
              q = p;
              std::string d;
              for (auto &l : l2) d += l + "\n";
              q.world.files[f].data = d;
              if (still_fails(c, q)) {
                p = q;
                ls = l2;
                rem = progress = true;
              } else
                st += chunk;
            }
            if (!rem) {
              if (chunk == 1) break;
              chunk /= 2;
            }
          }
        }
      }
    }
    // schedule
    if (!p.order.empty()) {
      Plan q = p;
      q.order.clear();
      if (still_fails(c, q)) {
        p = q;
        progress = true;
      } else
        progress |= ddmin_vec<int>(c, p, [](Plan &x) -> std::vector<int> & { return x.order; });
    }
    if (!p.preempt.empty()) progress |= ddmin_vec<Preempt>(c, p, [](Plan &x) -> std::vector<Preempt> & { return x.preempt; });
    // per-op simplification
    for (size_t t = 0; t < p.tasks.size() && !exhausted(c); t++)
      for (size_t i = 0; i < p.tasks[t].ops.size() && !exhausted(c); i++) {
        // lines
        if (p.tasks[t].ops[i].lines.size() > 1)
          progress |= ddmin_vec<std::string>(c, p, [t, i](Plan &x) -> std::vector<std::string> & { return x.tasks[t].ops[i].lines; });
        if (!p.tasks[t].ops[i].env.empty())
          progress |= ddmin_vec<EnvAns>(c, p, [t, i](Plan &x) -> std::vector<EnvAns> & { return x.tasks[t].ops[i].env; });
        auto try_edit = [&](std::function<bool(Op &)> edit) {
          Plan q = p;
          if (!edit(q.tasks[t].ops[i])) return;
          if (still_fails(c, q)) {
            p = q;
            progress = true;
          }
        };
        try_edit([](Op &o) { if (!o.alias) return false; o.alias = false; return true; });
        try_edit([](Op &o) { if (o.final_nl) return false; o.final_nl = true; return true; });
        try_edit([](Op &o) { if (!o.sep) return false; o.sep = 0; return true; });
        try_edit([](Op &o) { if (!o.twin) return false; o.twin = false; return true; });
        try_edit([](Op &o) { if (!o.fresh_twin) return false; o.fresh_twin = false; return true; });
        try_edit([](Op &o) { if (o.kind != OP_CREATE || o.fill == 0xCC) return false; o.fill = 0xCC; return true; });
        try_edit([](Op &o) { if (o.kind != OP_CREATE || o.guard == 0) return false; o.guard = 0; return true; });
        // integers towards small / boundary values
        for (int pass = 0; pass < 12; pass++) {
          bool changed = false;
          auto shrink_int = [&](long Op::*field, long floor_) {
            long cur = p.tasks[t].ops[i].*field;
            if (cur <= floor_) return;
            long cands[3] = {floor_, (cur + floor_) / 2, cur - 1};
            for (long cv : cands) {
              if (cv >= cur || cv < floor_) continue;
              Plan q = p;
              q.tasks[t].ops[i].*field = cv;
              if (still_fails(c, q)) {
                p = q;
                changed = progress = true;
                return;
              }
            }
          };
          const Op &o = p.tasks[t].ops[i];
          if (o.kind == OP_CREATE && o.n > 0) shrink_int(&Op::n, 0);
          if (o.kind == OP_CHUNK || o.kind == OP_COUNT || o.kind == OP_COUNT_FILE) shrink_int(&Op::c, 2);
          if (o.kind == OP_OFFSET) shrink_int(&Op::k, 0);
          if (!changed) break;
        }
      }
  }
  if (execs) *execs = c.execs;
  return p;
}

// ---- argument helpers -----------------------------------------------------------------------------------------
struct Args {
  std::map<std::string, std::string> kv;
  std::vector<std::string> pos;
  std::string get(const std::string &k, const std::string &d = "") const {
    auto it = kv.find(k);
    return it == kv.end() ? d : it->second;
  }
  long num(const std::string &k, long d) const {
    auto it = kv.find(k);
    return it == kv.end() ? d : atol(it->second.c_str());
  }
  bool has(const std::string &k) const { return kv.count(k) > 0; }
};
Args parse_args(int argc, char **argv, int from) {
  Args a;
  for (int i = from; i < argc; i++) {
    std::string s = argv[i];
    if (s.compare(0, 2, "--") == 0) {
      std::string k = s.substr(2);
      if (i + 1 < argc && strncmp(argv[i + 1], "--", 2) != 0)
        a.kv[k] = argv[++i];
      else
        a.kv[k] = "1";
    } else
      a.pos.push_back(s);
  }
  return a;
}

void print_found(const Found &f, const char *tag) {
  std::string j = plan_to_json(f.plan).dump();
  fprintf(real_out(), "%s %s\n", tag, j.c_str());
  fflush(real_out());
}

Json stats_json(const RunStats &st) {
  Json j = Json::Obj();
  j.set("ops", st.ops);
  j.set("ops_skipped", st.ops_skipped);
  j.set("asm_checked", st.asm_checked);
  j.set("asm_failed_expected", st.asm_failed_expected);
  j.set("asm_unspec", st.asm_unspec);
  j.set("instr_lines", st.instr_lines);
  j.set("twin_compared", st.twin_compared);
  j.set("fresh_twins", st.fresh_twins);
  j.set("execs", st.execs);
  j.set("probes", st.probes);
  j.set("faults_fired", st.faults_fired);
  j.set("steps", st.steps);
  j.set("mremap_moves", st.mremap_moves);
  j.set("growths", st.growths);
  j.set("file_ops", st.file_ops);
  j.set("bin_files", st.bin_files);
  j.set("launches", st.launches);
  j.set("switches", st.switches);
  Json c = Json::Obj();
  for (auto &kv : st.counters) c.set(kv.first, kv.second);
  j.set("probes_hit", c);
  return j;
}

int cmd_run(const Args &a) {
  GenParams gp;
  gp.prop = a.get("prop");
  gp.seed = (uint64_t)a.num("seed", 1);
  gp.thorough = a.get("tier", "quick") == "thorough";
  gp.variant = a.get("variant");
  long from = a.num("from", 0), stride = a.num("stride", 1), count = a.num("count", 1000);
  double cap = (double)a.num("time-cap", 3600);
  long audit_every = a.num("audit-every", 50);
  // C18: every so often a case runs in a forked child, i.e. in a process in which the library has not yet done what the
  // case does (the isolated-line oracle only ever assembles single lines in plain mode): state the library builds lazily
  // on first use (padding tables, caches) is built while another caller is running
  long fresh_every = a.num("fresh-every", gp.prop == "C18" ? 6 : 0);
  long fresh_cases = 0;
  std::string hashes_out = a.get("hashes-out");
  g_print_plans = a.has("print-plans");
  std::vector<long> only;
  if (a.has("runs")) {
    std::stringstream ss(a.get("runs"));
    std::string tok;
    while (std::getline(ss, tok, ',')) only.push_back(atol(tok.c_str()));
  }
  std::string why;
  bool stable = corpus_init(&why);
  if (!stable) {
    fprintf(real_out(), "U %s\n", Json::Str(why).dump().c_str());
    if (corpus_collapsed()) {
      fprintf(real_out(), "DIED corpus collapsed: %s\n", why.c_str());
      fflush(real_out());
      return 2;
    }
  }
  double t0 = now_s();
  RunStats total;
  long cases = 0, evals = 0, nontriv = 0, n_in = 0, n_out = 0;
  long fp = 0, fpr = 0, mf = 0, scen = 0;
  std::vector<uint64_t> hashes;
  std::set<std::string> seen_sigs;
  FILE *out = real_out();
  bool capped = false;
  long n_cases = only.empty() ? count : (long)only.size();
  std::vector<Json> samples;
  for (long i = 0; i < n_cases; i++) {
    long run = only.empty() ? from + i * stride : only[(size_t)i];
    if ((i & 15) == 0 && now_s() - t0 > cap) {
      capped = true;
      break;
    }
    gp.run = run;
    g_cur_run = run;
    if (fresh_every > 0 && only.empty() && i % fresh_every == fresh_every - 1) {
      fflush(out);
      int pfd[2];
      if (pipe(pfd) == 0) {
        pid_t pid = fork();
        if (pid == 0) {
          close(pfd[0]);
          CaseOut cc;
          run_case(gp, cc);
          if (audit_every > 0 && run % audit_every == 0)
            fprintf(out, "H %ld %016llx %016llx %016llx\n", run, (unsigned long long)cc.plan_hash, (unsigned long long)cc.hash, (unsigned long long)cc.obs);
          long rec[8] = {cc.evaluations, cc.nontrivial, 0, 0, (long)cc.st.ops, (long)cc.st.asm_checked, (long)cc.st.steps, (long)cc.st.switches};
          int shown = 0;
          for (const Found &f : cc.found) {
            if (f.v.in_scope) rec[2]++;
            else rec[3]++;
            if (shown++ < 2) print_found(f, f.v.in_scope ? "V" : "O");
          }
          fflush(out);
          if (write(pfd[1], rec, sizeof rec) != (ssize_t)sizeof rec) _exit(3);
          _exit(0);
        }
        close(pfd[1]);
        long rec[8] = {0};
        ssize_t got = pid > 0 ? read(pfd[0], rec, sizeof rec) : -1;
        close(pfd[0]);
        int st = 0;
        if (pid > 0) waitpid(pid, &st, 0);
        g_cur_run = -1;
        cases++;
        fresh_cases++;
        if (got == (ssize_t)sizeof rec) {
          evals += rec[0];
          nontriv += rec[1];
          n_in += rec[2];
          n_out += rec[3];
          total.ops += (uint64_t)rec[4];
          total.asm_checked += (uint64_t)rec[5];
          total.steps += (uint64_t)rec[6];
          total.switches += (uint64_t)rec[7];
        }
        // (a child that died of a sanitizer report has printed its D line; the driver takes it from there)
        continue;
      }
    }
    CaseOut co;
    run_case(gp, co);
    g_cur_run = -1;
    cases++;
    evals += co.evaluations;
    nontriv += co.nontrivial;
    fp += co.fault_points;
    fpr += co.fault_points_run;
    mf += co.multi_fault_runs;
    scen += co.scenarios;
    merge_stats(total, co.st);
    for (uint64_t h : co.nontrivial_hashes) hashes.push_back(h);
    if (!only.empty() || (audit_every > 0 && run % audit_every == 0))
      fprintf(out, "H %ld %016llx %016llx %016llx\n", run, (unsigned long long)co.plan_hash, (unsigned long long)co.hash, (unsigned long long)co.obs);
    if (samples.size() < 2 && co.nontrivial > 0 && (run % 97 == 0 || i == 0) && gp.variant != "giant") {  // (a giant plan is tens of megabytes of text)
      Plan sp = generate(gp);
      samples.push_back(plan_to_json(sp));
    }
    for (const Found &f : co.found) {
      std::string sig = f.v.signature() + (f.v.in_scope ? "" : "/oos");
      if (f.v.in_scope) n_in++;
      else n_out++;
      // report the first few of each signature only; the driver minimises and gates them
      static std::map<std::string, int> per_sig;
      if (per_sig[sig]++ < 3) print_found(f, f.v.in_scope ? "V" : "O");
    }
  }
  if (!hashes_out.empty()) {
    FILE *hf = fopen(hashes_out.c_str(), "wb");
    if (hf) {
      fwrite(hashes.data(), 8, hashes.size(), hf);
      fclose(hf);
    }
  }
  double wall = now_s() - t0;
  Json s = Json::Obj();
  s.set("cases", cases);
  s.set("evaluations", evals);
  s.set("nontrivial", nontriv);
  s.set("violations", n_in);
  s.set("out_of_scope", n_out);
  s.setb("time_capped", capped);
  s.set("wall_ms", (long)(wall * 1000));
  s.set("stats", stats_json(total));
  if (fresh_every > 0) s.set("cases_in_fresh_processes", fresh_cases);
  s.set("abstract_states", coverage_states());
  s.set("state_op_outcome_triples", coverage_triples());
  s.set("edges_total", (long)sim_edges_total());
  s.set("edges_hit", (long)sim_edges_hit());
  s.set("lib_initial_capacity", lib_geometry().initial);
  s.set("lib_growth_step", lib_geometry().step);
  s.set("corpus_lines", (long)corpus_all().size());
  s.set("corpus_dropped", (long)corpus_dropped());
  s.set("oracle_entries", enc_cache_size());
  s.set("oracle_unstable", enc_unstable_count());
  if (coverage_fit_triples()) s.set("fit_triples_distinct", coverage_fit_triples());
  if (gp.prop == "C18") s.set("overlap_pairs", fine_pairs());
  if (gp.prop == "C12") {
    s.set("c12_transitions_covered", c12_transitions_covered());
    s.set("c12_transition_min_hits", c12_transition_min());
  }
  if (gp.prop == "C17") {
    s.set("scenarios", scen);
    s.set("fault_points_total", fp);
    s.set("fault_points_executed", fpr);
    s.set("multi_fault_runs", mf);
  }
  Json calls = Json::Obj(), fired = Json::Obj();
  for (int k = 0; k < K_N; k++) {
    if (stats().calls[k]) calls.set(call_name(k), stats().calls[k]);
    if (stats().fired[k]) fired.set(call_name(k), stats().fired[k]);
  }
  s.set("os_calls", calls);
  s.set("faults_fired_by_kind", fired);
  s.set("mremap_moves", stats().mremap_moves);
  s.set("mremap_inplace", stats().mremap_inplace);
  s.set("short_reads", stats().short_reads);
  s.set("transient_short_writes", stats().transient_short_writes);
  s.set("descriptor_limit_hits", stats().fd_limit_hits);
  s.set("leaked_blocks_after_faults", stats().leaks_blocks);
  s.set("leaked_mappings_after_faults", stats().leaks_maps);
  s.set("leaked_descriptors_after_faults", stats().leaks_fds);
  Json sa = Json::Arr();
  for (auto &x : samples) sa.push(x);
  s.set("samples", sa);
  fprintf(out, "S %s\n", s.dump().c_str());
  fflush(out);
  return 0;
}

int cmd_gen(const Args &a) {
  GenParams gp;
  gp.prop = a.get("prop");
  gp.seed = (uint64_t)a.num("seed", 1);
  gp.run = a.num("run", 0);
  gp.thorough = a.get("tier", "quick") == "thorough";
  gp.variant = a.get("variant");
  std::string why;
  corpus_init(&why);
  Plan p = generate(gp);
  fprintf(real_out(), "%s\n", plan_to_json(p).dump().c_str());
  return 0;
}

bool load_plan(const std::string &path, Plan &p) {
  std::string txt = read_file(path);
  Json j;
  std::string err;
  if (!Json::parse(txt, j) || !plan_from_json(j, p, &err)) {
    fprintf(real_out(), "cannot parse plan %s: %s\n", path.c_str(), err.c_str());
    return false;
  }
  return true;
}

// A violation that needs what earlier cases left behind in the process (library-internal static state
// surviving instances) cannot be replayed from one plan.  Its replay file lists the run indices to
// execute in order, in one process, exactly as the discovering worker did.
int replay_sequence(const Json &j, const Args &a) {
  GenParams gp;
  gp.prop = j.str("property");
  gp.seed = (uint64_t)j.num("seed", 1);
  gp.thorough = j.str("tier") == "thorough";
  gp.variant = j.str("variant");
  std::string why;
  corpus_init(&why);
  g_replay_mode = true;
  FILE *out = real_out();
  const Json *runs = j.get("runs");
  if (!runs) return 2;
  if (j.get("expect") && j.get("expect")->str("class") == "carryover" && !runs->a.empty()) {
    // the last case alone (forked child of this still pristine process) versus the same case after its predecessors
    long last = (long)runs->a.back().n;
    int fds[2];
    if (pipe(fds) != 0) return 2;
    fflush(out);
    pid_t pid = fork();
    if (pid == 0) {
      gp.run = last;
      CaseOut co;
      run_case(gp, co);
      unsigned long long h = co.obs;
      if (__real_write(fds[1], &h, sizeof h) < 0) {}
      _exit(0);
    }
    close(fds[1]);
    unsigned long long alone = 0;
    bool got = read(fds[0], &alone, sizeof alone) == (ssize_t)sizeof alone;
    close(fds[0]);
    int st = 0;
    waitpid(pid, &st, 0);
    unsigned long long after = 0;
    for (const Json &r : runs->a) {
      gp.run = (long)r.n;
      g_cur_run = gp.run;
      CaseOut co;
      run_case(gp, co);
      after = co.obs;
    }
    if (!got) return 2;
    if (alone != after) {
      fprintf(out, "REPLAY violation property=%s class=carryover at run %ld\n  what the callers of case %ld observe (return values, offsets, bytes) depends on the %zu cases executed "
              "before it in the same process: observation hash %016llx alone, %016llx after them\n", gp.prop.c_str(), last, last, runs->a.size() - 1, alone, after);
      return 1;
    }
    fprintf(out, "REPLAY no violation (observations of case %ld are the same alone and after its predecessors)\n", last);
    return 0;
  }
  fprintf(out, "replaying a sequence of %zu cases in one process (the violation depends on state left behind by earlier cases)\n", runs->a.size());
  for (const Json &r : runs->a) {
    gp.run = (long)r.n;
    g_cur_run = gp.run;
    CaseOut co;
    run_case(gp, co);
    for (const Found &f : co.found)
      if (f.v.in_scope) {
        fprintf(out, "REPLAY violation property=%s class=%s at run %ld task=%d op=%d (%s)\n  %s\n", gp.prop.c_str(), f.v.cls.c_str(), gp.run, f.v.task, f.v.op,
                f.v.op_kind.c_str(), f.v.detail.c_str());
        if (a.has("print-plan")) fprintf(out, "%s\n", plan_to_json(f.plan).dump().c_str());
        return 1;
      }
  }
  fprintf(out, "REPLAY no violation\n");
  return 0;
}

int cmd_replay(const Args &a) {
  if (a.pos.empty()) return 2;
  {
    Json j;
    if (Json::parse(read_file(a.pos[0]), j) && j.str("kind") == "sequence") return replay_sequence(j, a);
  }
  Plan p;
  if (!load_plan(a.pos[0], p)) return 2;
  std::string why;
  corpus_init(&why);
  g_replay_mode = true;
  g_cur_run = p.run;
  RunOptions o;
  o.verbose = a.has("verbose");
  FILE *out = real_out();
  std::string want_cls = p.expect.str("class"), want_kind = p.expect.str("op_kind");
  if (want_cls == "sanitizer") {
    fprintf(out, "replaying %s: a sanitizer report inside operation kind %s is expected; the process exits 1 when it occurs\n", a.pos[0].c_str(),
            want_kind.c_str());
    fflush(out);
  }
  RunResult r = run_plan(p, o);
  char hb[32];
  snprintf(hb, sizeof hb, "%016llx", (unsigned long long)r.event_hash);
  if (!r.v.violated) {
    fprintf(out, "REPLAY no violation (event_hash=%s)\n", hb);
    return 0;
  }
  fprintf(out, "REPLAY violation property=%s class=%s task=%d op=%d (%s) in_scope=%d event_hash=%s\n  %s\n", p.prop.c_str(), r.v.cls.c_str(), r.v.task,
          r.v.op, r.v.op_kind.c_str(), (int)r.v.in_scope, hb, r.v.detail.c_str());
  if (a.has("update-expect")) {
    // adopt what a fresh process observes as the expectation (used by the driver when the minimised plan
    // violates the property in a different way in a fresh process than inside the shrinker)
    p.expect = expect_json(r.v, r.event_hash);
    FILE *f = fopen(a.pos[0].c_str(), "w");
    if (f) {
      fprintf(f, "%s\n", plan_to_json(p).dump().c_str());
      fclose(f);
    }
    return r.v.in_scope ? 1 : 4;
  }
  if (!want_cls.empty() && (want_cls != r.v.cls || want_kind != r.v.op_kind)) {
    fprintf(out, "REPLAY differs from the recorded expectation class=%s op_kind=%s\n", want_cls.c_str(), want_kind.c_str());
    return 4;
  }
  std::string want_hash = p.expect.str("event_hash");
  if (!want_hash.empty() && want_hash != hb && want_cls != "sanitizer") {
    fprintf(out, "REPLAY event hash differs from the recorded %s\n", want_hash.c_str());
    return 4;
  }
  return 1;
}

int cmd_shrink(const Args &a) {
  if (a.pos.empty()) return 2;
  Plan p;
  if (!load_plan(a.pos[0], p)) return 2;
  std::string why;
  corpus_init(&why);
  FILE *out = real_out();
  bool sc = false;
  uint64_t eh = 0;
  std::string detail;
  std::string sig = eval_forked(p, &sc, &eh, &detail);
  if (sig.empty()) {
    fprintf(out, "SHRINK no violation to shrink\n");
    return 3;
  }
  long execs = 0;
  Plan m = shrink_plan(p, sig, sc, a.num("budget", 2000), (double)a.num("seconds", 20), &execs);
  // final evaluation for the expectation block; twice, hashes must agree
  bool sc1 = false, sc2 = false;
  uint64_t h1 = 0, h2 = 0;
  std::string d1, d2;
  std::string s1 = eval_forked(m, &sc1, &h1, &d1);
  std::string s2 = eval_forked(m, &sc2, &h2, &d2);
  if (s1 != sig || s2 != sig || h1 != h2 || sc1 != sc) {
    fprintf(out, "SHRINK unstable: %s/%s/%s hashes %llx %llx\n", sig.c_str(), s1.c_str(), s2.c_str(), (unsigned long long)h1, (unsigned long long)h2);
    return 2;
  }
  Verdict v;
  size_t at = sig.find('@');
  v.cls = sig.substr(0, at);
  v.op_kind = at == std::string::npos ? "" : sig.substr(at + 1);
  v.detail = d1;
  v.in_scope = sc1;
  // task/op of the minimised plan: recompute in-process for non-fatal classes
  if (v.cls != "sanitizer" && v.cls != "crash@process") {
    RunResult r = run_plan(m, RunOptions());
    if (r.v.violated) v = r.v;
  }
  m.expect = expect_json(v, v.cls == "sanitizer" ? 0 : h1);
  std::string outp = a.get("o", a.pos[0] + ".min");
  FILE *f = fopen(outp.c_str(), "w");
  if (!f) return 2;
  fprintf(f, "%s\n", plan_to_json(m).dump().c_str());
  fclose(f);
  fprintf(out, "SHRINK ok sig=%s in_scope=%d ops %zu -> %zu, %ld re-executions, wrote %s\n", sig.c_str(), (int)sc, p.n_ops(), m.n_ops(), execs, outp.c_str());
  return 0;
}

int cmd_uniq(const Args &a) {
  std::vector<uint64_t> all;
  for (const std::string &p : a.pos) {
    std::string d = read_file(p);
    size_t n = d.size() / 8;
    size_t old = all.size();
    all.resize(old + n);
    memcpy(all.data() + old, d.data(), n * 8);
  }
  std::sort(all.begin(), all.end());
  size_t u = std::unique(all.begin(), all.end()) - all.begin();
  fprintf(real_out(), "%zu %zu\n", all.size(), u);
  return 0;
}

}  // namespace

int main(int argc, char **argv) {
  if (argc < 2) {
    fprintf(stderr, "usage: alsim run|replay|shrink|gen|uniq|canaries ...\n");
    return 2;
  }
  std::string cmd = argv[1];
  Args a = parse_args(argc, argv, 2);
  if (cmd == "uniq") return cmd_uniq(a);
#ifdef SIM_TSAN
  sim_init(false);
#else
  sim_init(true);
#endif
  __sanitizer_set_death_callback(death_cb);
  if (cmd == "racecanary") {
    // must die with a ThreadSanitizer report (exit 66) in the TSan build
    int v = lib::race_canary();
    fprintf(real_out(), "RACECANARY not detected (counter=%d)\n", v);
    return 0;
  }
  if (cmd == "pristine") {
    // nothing of the library has run in this process yet, and nothing but the plan's calls will
    Plan p;
    if (a.pos.empty() || !load_plan(a.pos[0], p)) return 2;
    return run_pristine(p, real_out());
  }
  if (cmd == "run") return cmd_run(a);
  if (cmd == "gen") return cmd_gen(a);
  if (cmd == "replay") return cmd_replay(a);
  if (cmd == "shrink") return cmd_shrink(a);
  if (cmd == "canaries") {
    std::string why;
    corpus_init(&why);
    return run_canaries(a.get("prop"));
  }
  fprintf(stderr, "unknown command %s\n", cmd.c_str());
  return 2;
}
