// Reference model of an AssemblyLine instance and the oracles derived from it.
#pragma once
#include <stdint.h>
#include <string>
#include <unordered_map>
#include <vector>

namespace sim {

// ---- isolated-line oracle -----------------------------------------------------------------
// enc(line, opts): what the line yields when assembled alone on a fresh instance with the
// option state `opts` (index 0..11 = mov*4 + swap*2 + nobase; mov: 0 STRICT 1 NASM 2 SMART).
struct Enc {
  bool ok = false;      // assembled (EXIT_SUCCESS)
  bool crashed = false; // the isolated call crashed/hung (outside the claimed domain)
  uint8_t len = 0;
  uint8_t bytes[24] = {0};
  bool filler() const { return ok && len == 0; }
};
static inline int opt_index(int mov, int swap, int nobase) { return mov * 4 + swap * 2 + nobase; }
const Enc &enc(const std::string &line, int opts);
// rax after executing `line ; ret` alone (only meaningful for exec-safe lines that write rax)
bool enc_rax(const std::string &line, int opts, uint64_t *rax);
long enc_cache_size();
long enc_unstable_count();  // re-evaluations that disagreed with the cached entry (must stay 0)
// re-assemble a cached line again (different fill, later moment) and compare with the table
bool enc_recheck(const std::string &line, int opts, int fill);

// ---- geometry of the library-managed buffer, observed on the tree under test -------------------------
// initial capacity and growth step as the library asks the simulated OS for them (6020 / 6000 on the
// pinned tree); nothing in the generators or oracles hard-codes them
struct LibGeometry {
  long initial = 6020;  // length of the first mapping
  long step = 6000;     // by how much the first growth extends it
  bool observed = false;
};
const LibGeometry &lib_geometry();

// ---- NOP decoder ------------------------------------------------------------------------------
// length of one valid x86 NOP instruction starting at p (at most `avail` bytes), 0 if none:
//   66* 90          |  66* 0F 1F /0 (any ModRM/SIB/disp form)
int nop_len_at(const uint8_t *p, long avail);
// does [p, p+n) decode as a sequence of NOP instructions?
bool is_nop_run(const uint8_t *p, long n);

// ---- instance model ------------------------------------------------------------------------------
struct Seg {
  long start = 0;
  int len = 0;
  int pad = 0;        // 1 = NOP padding
  int safe = 0;       // exec-safe line
  int is_ret = 0;
  int writes_rax = 0;
  uint64_t rax = 0;
};

struct InstModel {
  bool live = false;
  bool external = true;
  long cap = 0;  // external: n
  int mov = 2, swap = 1, nobase = 1;
  long chunk = 0;  // 0 = fitting off
  bool chunk_unknown = false;
  bool ever_fit = false;  // fitting has been switched on at some point in this instance's life
  long offset = 0;
  bool offset_unspec = false;
  bool offset_explicit = false;  // set by set_offset since the last assemble
  bool debug = false;
  long hi = 0;  // highest offset reached by a successful call (domain of set_offset on internal buffers)
  std::vector<Seg> segs;  // known tiling of [0, ...) by whole instructions
  int opts() const { return opt_index(mov, swap, nobase); }
  void reset_created(bool ext, long n);
  void apply_setter(int which, int value);
  void apply_chunk(long c);
  // record what a successful call placed at [start, end): segs below start are kept
  void truncate_segs(long start);
  bool exec_ready(uint64_t *expect_rax) const;
};

// ---- checking one assemble call ------------------------------------------------------------------
enum AsmMode { M_PLAIN = 0, M_FIT = 1, M_COUNT = 2 };
enum FailReason { FR_NONE = 0, FR_REJECT = 1, FR_RESERVE = 2, FR_FAULT = 3 };

struct AsmCheck {
  // inputs
  const InstModel *m = nullptr;
  const std::vector<std::string> *lines = nullptr;
  int mode = M_PLAIN;
  long c = 0;  // chunk size for M_FIT / M_COUNT
  long start = 0;
  int ret = 0;
  long off_after = 0;
  const uint8_t *buf = nullptr;  // buffer base after the call
  long buf_cap = 0;              // bytes readable at buf
  bool fault_fired = false;
  int count_out = 0;  // *dest after the call (M_COUNT)
  // outputs
  int expect_fail = FR_NONE;  // why the model expects failure (walk with the library's pad choice)
  bool ret_ok = true;
  bool off_ok = true;
  bool bytes_ok = true;
  bool fit_ok = true;    // padding relation (M_FIT)
  bool count_ok = true;  // M_COUNT
  long end = 0;          // model's end offset when success is expected
  int expect_count = 0;
  std::string detail;
  std::vector<Seg> segs;  // instruction/padding layout of [start, end) when everything matched
  // probes for coverage
  int pads = 0, pads_gt11 = 0, instr_ge_c = 0, exact_fit = 0, n_instr = 0;
  bool reserve_edge = false;  // some instruction had exactly 20..22 bytes left
};
void check_assemble(AsmCheck &k);
// does the model expect the call to fail, and where does it end otherwise (library's padding choice)
int walk_expect(const InstModel &m, const std::vector<std::string> &lines, int mode, long c, long start, long *end, int *n_instr,
                bool *reserve_edge);

// call JIT code with every caller-saved register other than rax zeroed (deterministic; a stray memory
// operand through one of them faults on the null page)
uint64_t call_zeroed(const void *code);
// the environment asmline documents for -r[=LEN]: six pointers to zero-initialised arrays of LEN 64-bit elements
uint64_t call_with_arrays(const void *code, int len);
// does `line` behave as an exec-safe line when executed (sandwich test under all option states)?
bool validate_exec_safe(const std::string &line, bool writes_rax);

// ---- exec safety --------------------------------------------------------------------------------
bool line_exec_safe(const std::string &line, bool *is_ret, bool *writes_rax);

}  // namespace sim
