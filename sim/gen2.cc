// Generators for the thread profile (C18) and the CLI profile (C20).
#include "corpus.h"
#include "libcall.h"
#include "model.h"
#include "plan.h"
#include "runner.h"

#include <algorithm>
#include <errno.h>

namespace sim {

std::string respell_line(Rng &r, const std::string &line);  // gen.cc

namespace {

const std::string &ltext(int idx) { return corpus_all()[idx].text; }

std::string any_instr_plain(Rng &r);
std::string any_instr(Rng &r) {
  std::string l = any_instr_plain(r);
  return r.chance(1, 10) ? respell_line(r, l) : l;
}
std::string any_instr_plain(Rng &r) {
  unsigned w = (unsigned)r.below(100);
  if (w < 50) return ltext(r.pick(corpus_instr()));
  if (w < 75) {
    for (int tries = 0; tries < 8; tries++) {
      const std::vector<int> &v = corpus_by_len((int)r.range(1, 14));
      if (!v.empty()) return ltext(r.pick(v));
    }
  }
  if (w < 88 && !corpus_optsens().empty()) return ltext(r.pick(corpus_optsens()));
  return ltext(r.pick(corpus_instr()));
}

std::vector<std::string> exec_prog(Rng &r, int n) {
  std::vector<std::string> v;
  for (int i = 0; i < n; i++) v.push_back(ltext(r.chance(1, 8) ? r.pick(corpus_rax()) : r.pick(corpus_safe())));
  v.push_back(ltext(r.pick(corpus_rax())));
  v.push_back(ltext(corpus_ret()));
  return v;
}

// a trailing comment that makes the physical line long (up to ~260 characters); the words include
// things that would assemble if they were ever taken for code
std::string long_comment(Rng &r, const std::string &line) {
  if (line.find(';') != std::string::npos || line.find(':') != std::string::npos) return line;
  static const char *words[] = {"x1", "<-", "arg1[4]", "*", "0x13", "ret", "nop", "spilling", "to", "mem", "mov rax, 1", "preserving", "value",
                                "of", "x40", "into", "a", "new", "reg", "clc", "--", "padding", "add rcx, rdx"};
  size_t target = (size_t)r.range(70, 260);
  std::string s = line + " ;";
  while (s.size() < target) {
    s.push_back(' ');
    s += words[r.below(sizeof words / sizeof words[0])];
  }
  return s;
}

uint64_t uid_of(Plan &p, uint64_t &ctr) { return mix64(p.seed * 1000003ULL + (uint64_t)p.run, ++ctr) & 0x7fffffffffffULL; }

}  // namespace

// ---------------------------------------------------------------------------------------------------
// C18: 2..4 caller threads, each create / set options / assemble (plain, fitting, counting) / destroy
void gen_c18(Plan &p, Rng &r, bool thorough) {
  uint64_t ctr = 0;
  auto mk = [&](int kind, int slot) {
    Op o;
    o.kind = kind;
    o.slot = slot;
    o.uid = uid_of(p, ctr);
    return o;
  };
  p.fine = true;
  p.world.mem_policy = (int)r.below(3);
  int ntasks = 2 + (int)r.below(3);
  // now and then every caller does the same rare thing (chunk fitting in front of the longest instructions, gaps
  // above 11 bytes): whatever the library sets up on first use of a path is then set up while others are on it
  const bool all_fit_long = r.chance(1, 8);
  const bool shared_file = r.chance(1, 5);
  const bool long_names = r.chance(1, 3);
  std::vector<std::string> longs;
  if (all_fit_long)
    for (int len = 12; len <= 15; len++)
      for (int idx : corpus_by_len(len)) longs.push_back(ltext(idx));
  for (int ti = 0; ti < ntasks; ti++) {
    Task t;
    int loops = 1 + (int)r.below(3);
    for (int l = 0; l < loops; l++) {
      bool internal = r.chance(1, 4);
      Op c = mk(OP_CREATE, 0);
      c.n = internal ? -1 : r.range(600, 4096);
      c.fill = (int)r.below(2) ? 0xCC : 0x00;
      c.guard = (int)r.below(2);
      t.ops.push_back(c);
      if (r.coin()) {
        // option state chosen once with the three canonical setters, as the isolated-line oracle does
        int o = (int)r.below(12);
        static const int which[3] = {lib::S_MOV_IMM, lib::S_SWAP, lib::S_NOBASE};
        int vals[3] = {o / 4, (o / 2) & 1, o & 1};
        for (int k = 0; k < 3; k++) {
          Op s = mk(OP_SETTER, 0);
          s.which = which[k];
          s.value = vals[k];
          t.ops.push_back(s);
        }
      }
      unsigned mode = (unsigned)r.below(10);  // 0..4 plain, 5..7 fitting, 8..9 counting
      if (all_fit_long && !longs.empty()) mode = 6;
      if (mode >= 5 && mode <= 7) {
        Op ch = mk(OP_CHUNK, 0);
        ch.c = all_fit_long ? r.range(14, 40) : r.range(2, 40);
        t.ops.push_back(ch);
      }
      int calls = 1 + (int)r.below(3);
      bool execp = r.coin() && !(all_fit_long && !longs.empty());
      for (int k = 0; k < calls; k++) {
        Op a = mk(mode >= 8 ? OP_COUNT : OP_ASM, 0);
        a.c = r.range(2, 32);
        int nl = (int)r.range(1, 12);
        if (internal && r.chance(1, 8)) nl = (int)r.range(1300, 1900);  // growth (and relocation) of the buffer while other callers run
        if (execp && k == calls - 1)
          a.lines = exec_prog(r, nl);
        else if (execp)
          for (int q = 0; q < nl; q++) a.lines.push_back(ltext(r.pick(corpus_safe())));
        else
          for (int q = 0; q < nl; q++)
            a.lines.push_back(all_fit_long && !longs.empty() && r.coin() ? r.pick(longs) : r.chance(1, 10) ? ltext(r.pick(corpus_fillers())) : any_instr(r));
        if (!execp && r.chance(1, 15) && !corpus_rejects().empty()) {
          a.lines.insert(a.lines.begin() + (long)r.below(a.lines.size() + 1), ltext(r.pick(corpus_rejects())));
        }
        a.final_nl = r.coin();
        t.ops.push_back(a);
        if (r.chance(1, 6)) {
          Op so = mk(OP_OFFSET, 0);
          so.k = 0;
          t.ops.push_back(so);
        }
      }
      if (execp) t.ops.push_back(mk(OP_EXEC, 0));
      if (r.chance(1, 4)) {
        // the file entry points, on this caller's own file
        FileSpec f;
        f.path = "/sim/t" + std::to_string(ti) + "_" + std::to_string(l) + ".asm";
        int nl2 = (int)r.range(1, 10);
        for (int q = 0; q < nl2; q++) f.data += any_instr(r) + "\n";
        if (shared_file) {
          // a read-only source that every caller assembles: reading is sharing nothing
          f.path = "/sim/shared.asm";
          bool have = false;
          for (const FileSpec &x : p.world.files)
            if (x.path == f.path) have = true;
          if (!have) p.world.files.push_back(f);
        } else
          p.world.files.push_back(f);
        Op so = mk(OP_OFFSET, 0);
        so.k = 0;
        t.ops.push_back(so);
        Op fa = mk(r.chance(1, 3) ? OP_COUNT_FILE : OP_ASM_FILE, 0);
        fa.path = f.path;
        fa.c = r.range(2, 32);
        t.ops.push_back(fa);
      }
      if (r.chance(1, 5)) {
        // binary output of this caller's code into this caller's own file
        Op so = mk(OP_OFFSET, 0);
        so.k = 0;
        t.ops.push_back(so);
        Op a = mk(OP_ASM, 0);
        int nl3 = (int)r.range(1, 40);
        for (int q = 0; q < nl3; q++) a.lines.push_back(any_instr(r));
        t.ops.push_back(a);
        Op b = mk(OP_BIN_FILE, 0);
        b.path = "/sim/t" + std::to_string(ti) + "_" + std::to_string(l) + ".bin";
        if (long_names)  // the callers' targets differ only behind a long common beginning
          b.path = "/sim/output_of_one_of_several_callers_working_side_by_side_in_this_process_caller_" + std::to_string(ti) + "_" + std::to_string(l) + ".bin";
        t.ops.push_back(b);
      }
      t.ops.push_back(mk(OP_DESTROY, 0));
    }
    p.tasks.push_back(t);
  }
  // calibration: every caller alone, to learn how many yield points each one passes
  RunResult cal = run_plan(p, RunOptions());
  std::vector<long> steps = cal.task_steps;
  steps.resize((size_t)ntasks, 1000);
  unsigned style = (unsigned)r.below(10);
  // rendezvous: the callers are parked at the beginning of an operation of the same rare kind (binary output, a file
  // entry point, create, destroy) and then take turns every few yield points inside it - what such operations share is
  // hardly ever touched by two callers at once under uniformly placed preemptions
  if (r.chance(1, 5) && cal.op_starts.size() == (size_t)ntasks) {
    static const int kinds[] = {OP_BIN_FILE, OP_ASM_FILE, OP_CREATE, OP_DESTROY, OP_BIN_FILE};
    int K = kinds[r.below(5)];
    std::vector<std::pair<long, long>> win((size_t)ntasks, {-1, -1});
    int have = 0;
    for (int ti = 0; ti < ntasks; ti++) {
      const std::vector<Op> &ops = p.tasks[(size_t)ti].ops;
      const std::vector<long> &st = cal.op_starts[(size_t)ti];
      std::vector<size_t> cand;
      for (size_t oi = 0; oi < ops.size() && oi < st.size(); oi++)
        if (ops[oi].kind == K || (K == OP_ASM_FILE && ops[oi].kind == OP_COUNT_FILE)) cand.push_back(oi);
      if (cand.empty()) continue;
      size_t oi = cand[r.below(cand.size())];
      long b = st[oi], e = oi + 1 < st.size() ? st[oi + 1] : steps[(size_t)ti];
      if (e <= b) continue;
      win[(size_t)ti] = {b, e};
      have++;
    }
    if (have >= 2) {
      long gap = (long)r.range(1, 4);
      for (int ti = 0; ti < ntasks; ti++) {
        if (win[(size_t)ti].first < 0) continue;
        int guard = 0;
        for (long at = win[(size_t)ti].first; at < win[(size_t)ti].second && guard++ < 400; at += gap) {
          Preempt pr;
          pr.task = ti;
          pr.at = at;
          pr.to = (int)r.below(8);
          p.preempt.push_back(pr);
        }
      }
      return;
    }
  }
  if (style < 6) {
    // Bernoulli preemption with a per-run probability
    static const long dens[] = {10, 30, 100, 300, 1000, 5000};
    long den = dens[r.below(6)];
    for (int ti = 0; ti < ntasks; ti++) {
      long at = 0;
      int guard = 0;
      while (guard++ < 600) {
        // geometric gap with mean `den`
        long gap = 1;
        uint64_t u = r.next() >> 11;
        double x = (double)(u + 1) / 9007199254740993.0;
        gap += (long)(-__builtin_log(x) * (double)den);
        at += gap;
        if (at >= steps[(size_t)ti]) break;
        Preempt pr;
        pr.task = ti;
        pr.at = at;
        pr.to = (int)r.below(8);
        p.preempt.push_back(pr);
      }
    }
  } else {
    // sparse: 1..3 preemptions at uniformly random points (depth-bounded, PCT style)
    int d = 1 + (int)r.below(thorough ? 4 : 3);
    for (int k = 0; k < d; k++) {
      Preempt pr;
      pr.task = (int)r.below((uint64_t)ntasks);
      pr.at = (long)r.below((uint64_t)std::max<long>(1, steps[(size_t)pr.task]));
      pr.to = (int)r.below(8);
      p.preempt.push_back(pr);
    }
    std::sort(p.preempt.begin(), p.preempt.end(), [](const Preempt &a, const Preempt &b) { return a.task != b.task ? a.task < b.task : a.at < b.at; });
  }
}

// ---------------------------------------------------------------------------------------------------
// C20: asmline as a simulated process; 1..3 invocations sharing the simulated file system
void gen_c20(Plan &p, Rng &r, bool thorough) {
  (void)thorough;
  uint64_t ctr = 0;
  Task t;
  p.world.mem_policy = (int)r.below(3);
  int ninv = 1 + (r.chance(1, 3) ? 1 : 0) + (r.chance(1, 8) ? 1 : 0);
  {
    FileSpec d;
    d.path = "/sim/dir";
    d.kind = 2;
    p.world.files.push_back(d);
  }
  for (int inv = 0; inv < ninv; inv++) {
    Op o;
    o.kind = OP_LAUNCH;
    o.uid = uid_of(p, ctr);
    std::vector<std::string> flags;
    bool long_mode_flag = false;
    // mode flags
    unsigned gw = (unsigned)r.below(10);
    static const char *grp[] = {"-n", "-t", "-s", "--nasm", "--strict", "--smart"};
    if (gw < 5) flags.push_back(grp[r.below(6)]);
    // a second shorthand: each is documented as an equivalence, so they apply one after the other in argv order
    // (whatever order the shuffle below produces is the order both asmline and the reference see)
    if (gw < 5 && r.chance(1, 4)) flags.push_back(grp[r.below(6)]);
    if (r.chance(1, 4)) {
      static const char *f[] = {"--nasm-mov-imm", "--strict-mov-imm", "--smart-mov-imm"};
      flags.push_back(f[r.below(3)]);
      long_mode_flag = true;
    }
    if (r.chance(1, 5)) {
      flags.push_back(r.coin() ? "--nasm-sib" : "--strict-sib");
      long_mode_flag = true;
    }
    if (r.chance(1, 5)) {
      flags.push_back(r.coin() ? "--nasm-sib-index-base-swap" : "--strict-sib-index-base-swap");
      long_mode_flag = true;
    }
    if (r.chance(1, 5)) {
      flags.push_back(r.coin() ? "--nasm-sib-no-base" : "--strict-sib-no-base");
      long_mode_flag = true;
    }
    // outputs
    bool run = r.chance(1, 4), rnd = false;
    if (run && r.chance(1, 4)) rnd = true;
    bool print = r.coin();
    bool counting = false, fitting = false;
    unsigned cw = (unsigned)r.below(12);
    long N = r.chance(3, 4) ? r.range(2, 32) : r.range(33, 300);
    if (cw < 4) fitting = true;
    else if (cw < 7) counting = true;
    unsigned ow = (unsigned)r.below(10);
    std::string outflag, outarg;
    if (ow < 3) {
      outflag = r.coin() ? "-P" : "--printfile";
      unsigned pw = (unsigned)r.below(12);
      outarg = pw == 0 ? "/sim/dir" : pw == 1 ? "/sim/nodir/o.bin" : "/sim/out" + std::to_string(r.below(2)) + ".bin";
    } else if (ow < 5) {
      outflag = r.coin() ? "-o" : "--object";
      outarg = r.coin() ? "obj" : "/sim/obj" + std::to_string(r.below(2));
    } else if (ow == 5 && !print && !counting && !run) {
      outflag = "-P";
      outarg = "/dev/stdout";
    }
    if (!outflag.empty() && outarg != "/dev/stdout" && r.chance(1, 10)) {
      // a long output name (beyond any line-sized scratch array in the tool); -o appends ".bin" to it
      long L = r.chance(1, 2) ? r.range(88, 104) : r.chance(3, 4) ? r.range(105, 600) : r.range(601, 4080);
      std::string nm = long_path(p.world, L, "output_name_");
      outarg = (outflag == "-o" || outflag == "--object") ? nm : nm + ".bin";
    }
    // invalid argument cases
    bool invalid = r.chance(1, 14);
    if (invalid) {
      unsigned iw = (unsigned)r.below(5);
      if (iw == 0) {
        fitting = true;
        counting = false;
        N = (long)r.range(-1, 1);
      } else if (iw == 1) {
        counting = true;
        fitting = false;
        N = (long)r.range(-1, 1);
      } else if (iw == 2) {
        outflag = "-o";
        outarg = "name.with.dot";
      } else if (iw == 3 && !long_mode_flag) {
        flags.push_back("--no-such-option");
      } else if (!long_mode_flag) {
        flags.push_back("-x");
      } else
        invalid = false;
    }
    if (print) flags.push_back(r.coin() ? "-p" : "--print");
    // the size is documented as a decimal number; leading zeros and a plus sign do not change a decimal number
    std::string Ntext = std::to_string(N);
    if (N > 1 && r.chance(1, 8)) Ntext = (r.coin() ? "0" : r.coin() ? "00" : "+") + Ntext;
    if (fitting) {
      flags.push_back(r.coin() ? "-c" : "--chunk");
      flags.push_back(Ntext);
    }
    if (counting) {
      flags.push_back(r.coin() ? "-b" : "--breaks");
      flags.push_back(Ntext);
    }
    int arglen = 10;  // "-r[=LEN] ... where LEN defaults to 10"
    if (run && !rnd) {
      static const char *rf[] = {"-r=3", "-r3", "--return=2", "-r17", "--return=12", "-r=1"};
      static const int rl[] = {3, 3, 2, 17, 12, 1};
      if (r.chance(1, 3)) {
        size_t k = r.below(6);
        flags.push_back(rf[k]);
        arglen = rl[k];
      } else
        flags.push_back(r.coin() ? "-r" : "--return");
    }
    if (rnd) flags.push_back("--rand");
    // program
    std::vector<std::string> prog;
    int nl = (int)r.geom(1, 30, 7);
    if (r.chance(1, 40)) {
      nl = (int)r.range(1300, 2800);  // more than one growth quantum of code
      // stdin + -c + -p dumps the whole buffer after every line: quadratic output, not worth simulating at this size
      if (fitting && print) {
        for (size_t q = 0; q < flags.size(); q++)
          if (flags[q] == "-p" || flags[q] == "--print") flags.erase(flags.begin() + (long)q--);
        print = false;
      }
    }
    if (run && !rnd && r.chance(1, 4)) {
      // the documented calling environment: six pointers (rdi, rsi, rdx, rcx, r8, r9) to zero-initialised arrays of LEN
      // 64-bit elements, which the code may dereference; stores into some elements, then one element is returned
      static const char *regs[] = {"rdi", "rsi", "rdx", "rcx", "r8", "r9"};
      auto slot = [&](int reg, int idx) {
        char b[48];
        if (idx == 0) snprintf(b, sizeof b, "[%s]", regs[reg]);
        else snprintf(b, sizeof b, "[%s+0x%x]", regs[reg], idx * 8);
        return std::string(b);
      };
      prog.push_back("; uses the argument arrays");
      int stores = (int)r.range(1, 6);
      std::vector<std::pair<int, int>> used;
      for (int q = 0; q < stores; q++) {
        int reg = (int)r.below(6), idx = r.chance(1, 3) ? arglen - 1 : (int)r.below((uint64_t)arglen);
        char b[96];
        snprintf(b, sizeof b, "mov qword %s, 0x%x", slot(reg, idx).c_str(), (unsigned)r.range(1, 0x7ffffffe));
        prog.push_back(b);
        used.emplace_back(reg, idx);
        if (r.chance(1, 4)) prog.push_back(r.coin() ? "inc r10" : "mov r11, 0x11");  // (the pointer registers are left alone)
      }
      std::pair<int, int> rd = r.chance(2, 3) ? r.pick(used) : std::make_pair((int)r.below(6), (int)r.below((uint64_t)arglen));
      prog.push_back("mov rax, " + slot(rd.first, rd.second));
      prog.push_back(ltext(corpus_ret()));
    } else if (run) {
      prog = exec_prog(r, nl);
    } else {
      for (int q = 0; q < nl; q++) {
        if (r.chance(1, 8) && !corpus_fillers().empty()) prog.push_back(ltext(r.pick(corpus_fillers())));
        prog.push_back(any_instr(r));
      }
      if (r.chance(1, 9) && !corpus_rejects().empty()) prog.insert(prog.begin() + (long)r.below(prog.size() + 1), ltext(r.pick(corpus_rejects())));
    }
    if (!run && r.chance(1, 25)) {
      // no instruction at all: nothing, or comments / labels / directives only - zero bytes of code are a valid result
      prog.clear();
      if (!corpus_fillers().empty())
        for (int q = (int)r.below(4); q > 0; q--) prog.push_back(ltext(r.pick(corpus_fillers())));
    }
    if (r.chance(1, 4)) {
      int k = 1 + (int)r.below(3);
      for (int q = 0; q < k && !prog.empty(); q++) {
        size_t at = r.below(prog.size());
        prog[at] = long_comment(r, prog[at]);
      }
    }
    bool fin = r.chance(3, 4);
    std::string text;
    // the parser accepts LF, CR LF and a lone CR as line ends; asmline reads stdin up to LF, so CR-separated lines reach
    // the library in one call
    const int sepk = r.chance(1, 12) ? 1 + (int)r.below(3) : 0;  // 0 LF, 1 CR LF, 2 CR, 3 mixed
    for (size_t q = 0; q < prog.size(); q++) {
      text += prog[q];
      if (q + 1 < prog.size() || fin) {
        int k = sepk == 3 ? (int)r.below(3) : sepk;
        text += k == 0 ? "\n" : k == 1 ? "\r\n" : "\r";
      }
    }
    o.input = text;
    o.from_stdin = r.coin();
    // shuffle the flags that stand alone; keep flag+argument pairs together
    std::vector<std::vector<std::string>> groups;
    for (size_t q = 0; q < flags.size(); q++) {
      std::vector<std::string> gq{flags[q]};
      if ((flags[q] == "-c" || flags[q] == "--chunk" || flags[q] == "-b" || flags[q] == "--breaks") && q + 1 < flags.size()) gq.push_back(flags[++q]);
      groups.push_back(gq);
    }
    if (!outflag.empty()) {
      if (outflag == "-P" && r.chance(1, 3))
        groups.push_back({"-P" + outarg});
      else
        groups.push_back({outflag, outarg});
    }
    for (size_t q = groups.size(); q > 1; q--) std::swap(groups[q - 1], groups[r.below(q)]);
    o.argv.push_back("asmline");
    std::string file;
    if (!o.from_stdin) {
      if (r.chance(1, 25))
        file = "/sim/missing.asm";
      else {
        FileSpec f;
        f.path = "/sim/in" + std::to_string(inv) + ".asm";
        f.data = text;
        p.world.files.push_back(f);
        file = f.path;
      }
    }
    size_t file_pos = file.empty() ? (size_t)-1 : (r.chance(2, 3) ? groups.size() : r.below(groups.size() + 1));
    for (size_t q = 0; q <= groups.size(); q++) {
      if (q == file_pos) o.argv.push_back(file);
      if (q < groups.size())
        for (auto &x : groups[q]) o.argv.push_back(x);
    }
    if (o.from_stdin) {
      unsigned sw = (unsigned)r.below(8);
      static const int fixed[] = {1, 2, 3, 7, 4096};
      if (sw < 5)
        o.chunks = {fixed[sw]};
      else if (sw < 7) {
        int k = (int)r.range(2, 6);
        for (int q = 0; q < k; q++) o.chunks.push_back((int)r.range(1, 40));
      }
    }
    // failing outputs
    if (!outflag.empty() && outarg != "/dev/stdout" && r.chance(1, 8)) {
      EnvAns a;
      unsigned fw = (unsigned)r.below(4);
      if (fw == 0) {
        a.call = K_FOPEN;
        a.ans = ANS_FAIL;
        a.err = r.coin() ? EACCES : ENOSPC;
      } else if (fw == 1) {
        a.call = K_CWRITE;
        a.ans = ANS_FAIL;
        a.err = ENOSPC;
      } else if (fw == 2) {
        a.call = K_CWRITE;
        a.ans = ANS_SHORT;
        a.arg = (long)r.below(40);
        a.err = ENOSPC;
      } else {
        a.call = K_FCLOSE;
        a.ans = ANS_FAIL;
        a.err = EIO;
      }
      o.env.push_back(a);
    }
    // stdout that stops accepting data (closed pipe, full disk behind a redirection)
    if ((print || counting || run) && outarg != "/dev/stdout" && r.chance(1, 12)) {
      EnvAns a;
      a.call = K_OUT;
      a.nth = 0;
      a.ans = r.coin() ? ANS_FAIL : ANS_SHORT;
      a.arg = (long)r.below(30);
      a.err = r.coin() ? ENOSPC : EIO;
      if (r.chance(1, 4)) {
        // one block is lost, the stream works again afterwards: only the stream's error indicator remembers it
        a.ans = ANS_FAIL;
        a.err = EAGAIN;
        a.nth = (int)r.below(3);
      }
      o.env.push_back(a);
    }
    t.ops.push_back(o);
  }
  p.tasks.push_back(t);
}

}  // namespace sim
