// Generators for the thread profile (C18) and the CLI profile (C20).
#include "corpus.h"
#include "libcall.h"
#include "model.h"
#include "plan.h"
#include "runner.h"

#include <algorithm>

namespace sim {

namespace {

const std::string &ltext(int idx) { return corpus_all()[idx].text; }

std::string any_instr(Rng &r) {
  unsigned w = (unsigned)r.below(100);
  if (w < 50) return ltext(r.pick(corpus_instr()));
  if (w < 75) {
    for (int tries = 0; tries < 8; tries++) {
      const std::vector<int> &v = corpus_by_len((int)r.range(1, 14));
      if (!v.empty()) return ltext(r.pick(v));
    }
  }
  if (w < 88 && !corpus_optsens().empty()) return ltext(r.pick(corpus_optsens()));
  return ltext(r.pick(corpus_instr()));
}

std::vector<std::string> exec_prog(Rng &r, int n) {
  std::vector<std::string> v;
  for (int i = 0; i < n; i++) v.push_back(ltext(r.chance(1, 8) ? r.pick(corpus_rax()) : r.pick(corpus_safe())));
  v.push_back(ltext(r.pick(corpus_rax())));
  v.push_back(ltext(corpus_ret()));
  return v;
}

uint64_t uid_of(Plan &p, uint64_t &ctr) { return mix64(p.seed * 1000003ULL + (uint64_t)p.run, ++ctr) & 0x7fffffffffffULL; }

}  // namespace

// ---------------------------------------------------------------------------------------------------
// C18: 2..4 caller threads, each create / set options / assemble (plain, fitting, counting) / destroy
void gen_c18(Plan &p, Rng &r, bool thorough) {
  uint64_t ctr = 0;
  auto mk = [&](int kind, int slot) {
    Op o;
    o.kind = kind;
    o.slot = slot;
    o.uid = uid_of(p, ctr);
    return o;
  };
  p.fine = true;
  p.world.mem_policy = (int)r.below(3);
  int ntasks = 2 + (int)r.below(3);
  for (int ti = 0; ti < ntasks; ti++) {
    Task t;
    int loops = 1 + (int)r.below(3);
    for (int l = 0; l < loops; l++) {
      bool internal = r.chance(1, 4);
      Op c = mk(OP_CREATE, 0);
      c.n = internal ? -1 : r.range(600, 4096);
      c.fill = (int)r.below(2) ? 0xCC : 0x00;
      c.guard = (int)r.below(2);
      t.ops.push_back(c);
      if (r.coin()) {
        int n = 1 + (int)r.below(3);
        for (int k = 0; k < n; k++) {
          Op s = mk(OP_SETTER, 0);
          s.which = (int)r.below(5);
          static const int vals[] = {0, 1, 2, 0, 1, 2, 77};
          s.value = vals[r.below(7)];
          t.ops.push_back(s);
        }
      }
      unsigned mode = (unsigned)r.below(10);  // 0..4 plain, 5..7 fitting, 8..9 counting
      if (mode >= 5 && mode <= 7) {
        Op ch = mk(OP_CHUNK, 0);
        ch.c = r.range(2, 40);
        t.ops.push_back(ch);
      }
      int calls = 1 + (int)r.below(3);
      bool execp = r.coin();
      for (int k = 0; k < calls; k++) {
        Op a = mk(mode >= 8 ? OP_COUNT : OP_ASM, 0);
        a.c = r.range(2, 32);
        int nl = (int)r.range(1, 12);
        if (execp && k == calls - 1)
          a.lines = exec_prog(r, nl);
        else if (execp)
          for (int q = 0; q < nl; q++) a.lines.push_back(ltext(r.pick(corpus_safe())));
        else
          for (int q = 0; q < nl; q++) a.lines.push_back(r.chance(1, 10) ? ltext(r.pick(corpus_fillers())) : any_instr(r));
        if (!execp && r.chance(1, 15) && !corpus_rejects().empty()) {
          a.lines.insert(a.lines.begin() + (long)r.below(a.lines.size() + 1), ltext(r.pick(corpus_rejects())));
        }
        a.final_nl = r.coin();
        t.ops.push_back(a);
        if (r.chance(1, 6)) {
          Op so = mk(OP_OFFSET, 0);
          so.k = 0;
          t.ops.push_back(so);
        }
      }
      if (execp) t.ops.push_back(mk(OP_EXEC, 0));
      t.ops.push_back(mk(OP_DESTROY, 0));
    }
    p.tasks.push_back(t);
  }
  // calibration: every caller alone, to learn how many yield points each one passes
  RunResult cal = run_plan(p, RunOptions());
  std::vector<long> steps = cal.task_steps;
  steps.resize((size_t)ntasks, 1000);
  unsigned style = (unsigned)r.below(10);
  if (style < 6) {
    // Bernoulli preemption with a per-run probability
    static const long dens[] = {10, 30, 100, 300, 1000, 5000};
    long den = dens[r.below(6)];
    for (int ti = 0; ti < ntasks; ti++) {
      long at = 0;
      int guard = 0;
      while (guard++ < 600) {
        // geometric gap with mean `den`
        long gap = 1;
        uint64_t u = r.next() >> 11;
        double x = (double)(u + 1) / 9007199254740993.0;
        gap += (long)(-__builtin_log(x) * (double)den);
        at += gap;
        if (at >= steps[(size_t)ti]) break;
        Preempt pr;
        pr.task = ti;
        pr.at = at;
        pr.to = (int)r.below(8);
        p.preempt.push_back(pr);
      }
    }
  } else {
    // sparse: 1..3 preemptions at uniformly random points (depth-bounded, PCT style)
    int d = 1 + (int)r.below(thorough ? 4 : 3);
    for (int k = 0; k < d; k++) {
      Preempt pr;
      pr.task = (int)r.below((uint64_t)ntasks);
      pr.at = (long)r.below((uint64_t)std::max<long>(1, steps[(size_t)pr.task]));
      pr.to = (int)r.below(8);
      p.preempt.push_back(pr);
    }
    std::sort(p.preempt.begin(), p.preempt.end(), [](const Preempt &a, const Preempt &b) { return a.task != b.task ? a.task < b.task : a.at < b.at; });
  }
}

void gen_c20(Plan &p, Rng &r, bool thorough) {
  (void)p;
  (void)r;
  (void)thorough;
}

}  // namespace sim
