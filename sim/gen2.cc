// Generators for the thread profile (C18) and the CLI profile (C20).
#include "corpus.h"
#include "libcall.h"
#include "model.h"
#include "plan.h"

namespace sim {

void gen_c18(Plan &p, Rng &r, bool thorough) {
  (void)p; (void)r; (void)thorough;
}
void gen_c20(Plan &p, Rng &r, bool thorough) {
  (void)p; (void)r; (void)thorough;
}

}  // namespace sim
