// Simulated operating system: arena, memory, files, streams, process; __wrap_* entry points.
#ifndef _GNU_SOURCE
#define _GNU_SOURCE 1
#endif
#include "simos.h"
#include "rng.h"

#include <errno.h>
#include <execinfo.h>
#include <fcntl.h>
#include <stdarg.h>
#include <stdlib.h>
#include <string.h>
#include <sys/file.h>
#include <sys/mman.h>
#include <sys/stat.h>
#include <ucontext.h>
#include <unistd.h>

#include <algorithm>
#include <deque>
#include <map>
#include <set>

extern "C" {
void sim_steps_begin(long budget);
long sim_steps_end(void);
void sim_yield_call(int kind);
void sim_hang_trap(void);

void *__real_malloc(size_t);
void *__real_calloc(size_t, size_t);
void __real_free(void *);
void *__real_mmap(void *, size_t, int, int, int, off_t);
void *__real_mremap(void *, size_t, size_t, int, ...);
int __real_munmap(void *, size_t);
int __real_open(const char *, int, ...);
int __real_fstat(int, struct stat *);
int __real_close(int);
ssize_t __real_read(int, void *, size_t);
ssize_t __real_write(int, const void *, size_t);
FILE *__real_fopen(const char *, const char *);
size_t __real_fwrite(const void *, size_t, size_t, FILE *);
int __real_fclose(FILE *);
void __real_exit(int) __attribute__((noreturn));
time_t __real_time(time_t *);
}

// ---- ThreadSanitizer scoping -------------------------------------------------------------------
// In the TSan build the harness is not instrumented, but its accesses would still reach TSan through
// libc interceptors (memcpy, memcmp, operator new ...).  Caller threads therefore run with accesses
// ignored while they execute harness code, and switch the ignore off exactly while they are inside
// real library code (run_in_lib); wrappers and stream callbacks switch it on again for their body.
#ifdef SIM_TSAN
extern "C" void __tsan_ignore_thread_begin();
extern "C" void __tsan_ignore_thread_end();
static __thread int t_tsan_task = 0, t_ign = 0;
static inline void ign_on() {
  if (t_tsan_task && !t_ign) {
    __tsan_ignore_thread_begin();
    t_ign = 1;
  }
}
static inline void ign_off() {
  if (t_tsan_task && t_ign) {
    __tsan_ignore_thread_end();
    t_ign = 0;
  }
}
struct HarnessScope {
  int was;
  HarnessScope() : was(t_ign) { ign_on(); }
  ~HarnessScope() {
    if (!was) ign_off();
  }
};
#else
static inline void ign_on() {}
static inline void ign_off() {}
struct HarnessScope {
  HarnessScope() {}
  ~HarnessScope() {}
};
#endif

namespace sim {

void sim_thread_begin() {
#ifdef SIM_TSAN
  t_tsan_task = 1;
#endif
  ign_on();
}
void sim_thread_end() {
  ign_off();
#ifdef SIM_TSAN
  t_tsan_task = 0;
#endif
}

static const size_t PAGE = 4096;
static const size_t ARENA_SIZE = 12ULL << 30;
static const size_t ARENA_LO = 4ULL << 30;  // islands live in [base+4G, base+8G)
static const size_t ARENA_HI = 8ULL << 30;
static const uintptr_t ARENA_FIXED = 0x200000000000ULL;
static const size_t MAX_ANON_DEFAULT = 4u << 20;  // growth cap of one anonymous mapping (runaway guard): 4 MiB

static const char *K_NAMES[K_N] = {"malloc", "calloc", "free",   "mmap",   "mmap_file", "mremap", "munmap",
                                   "open",   "fstat",  "close",  "read",   "fopen",     "fwrite", "fclose",
                                   "write",  "stdout", "stdin",  "exit",   "time",      "libc"};
const char *call_name(int k) { return (k >= 0 && k < K_N) ? K_NAMES[k] : "?"; }
int call_from_name(const std::string &s) {
  for (int i = 0; i < K_N; i++)
    if (s == K_NAMES[i]) return i;
  return -1;
}
static const char *A_NAMES[] = {"default", "fail", "move", "inplace", "short"};
const char *ans_name(int a) { return (a >= 0 && a <= 4) ? A_NAMES[a] : "?"; }
int ans_from_name(const std::string &s) {
  for (int i = 0; i <= 4; i++)
    if (s == A_NAMES[i]) return i;
  return 0;
}
static const struct { int e; const char *n; } E_NAMES[] = {
    {ENOMEM, "ENOMEM"}, {EAGAIN, "EAGAIN"}, {EINVAL, "EINVAL"}, {ENOENT, "ENOENT"}, {EACCES, "EACCES"},
    {EMFILE, "EMFILE"}, {EIO, "EIO"},       {ENOSPC, "ENOSPC"}, {EISDIR, "EISDIR"}, {ENODEV, "ENODEV"},
    {EOVERFLOW, "EOVERFLOW"}, {EFBIG, "EFBIG"}, {EEXIST, "EEXIST"},
    {EBADF, "EBADF"},   {EINTR, "EINTR"},   {EFAULT, "EFAULT"}, {ENFILE, "ENFILE"}, {EDQUOT, "EDQUOT"},
    {0, "0"}};
const char *errno_name(int e) {
  for (auto &x : E_NAMES)
    if (x.e == e) return x.n;
  return "E?";
}
int errno_from_name(const std::string &s) {
  for (auto &x : E_NAMES)
    if (s == x.n) return x.e;
  return atoi(s.c_str());
}

// ---------------------------------------------------------------------------------------
struct OutStream {
  int file = -1;  // index into files, -1 = stdout capture
  bool failed = false;
  int fail_errno = 0;
  long at = -1;  // >= 0: write position inside the file (fdopen on a descriptor); -1: append (fopen "w" truncated it)
  int fd_index = -1;  // the descriptor under the stream, once fileno() asked for it; released by fclose
};
static void out_store(OutStream *os, const char *buf, size_t take);

struct SimState {
  uint8_t *arena = nullptr;
  uint8_t *bump = nullptr;
  uint8_t *tbump = nullptr;  // persistent text islands, growing downwards from the top of the island region
  std::deque<Island> islands;
  World w;
  std::vector<SimFile> files;
  struct Fd { bool open = false; int file = -1; size_t pos = 0; bool writable = false; bool append = false; bool wfailed = false; int werrno = 0; bool to_stdout = false; int lock = 0; /* flock: 0 none, 1 shared, 2 exclusive */ };
  std::vector<Fd> fds;
  std::map<void *, size_t> heap;  // blocks allocated by real code
  std::string heap_overrun;       // first heap block found overrun since the last heap_overrun_take()
  std::map<FILE *, OutStream *> ostreams;
  std::set<FILE *> istreams;  // input streams real code opened with fopen(path, "r")
  std::map<FILE *, void *> istream_cookie;
  // stdio
  FILE *real_out = nullptr, *real_err = nullptr;
  FILE *sim_out = nullptr, *sim_err = nullptr, *sim_in = nullptr;
  std::string out_cap;
  OutStream out_state;
  std::string in_data;
  size_t in_pos = 0;
  std::vector<int> in_chunks;
  size_t in_chunk_i = 0;
  SimStats st;
  bool inited = false;
};
static SimState G;
static inline size_t max_anon() { return G.w.max_anon > 0 ? (size_t)G.w.max_anon : MAX_ANON_DEFAULT; }
// address space reserved behind a new mapping of `len` bytes for growth in place: up to the limit by default; in a world with a
// raised limit in proportion to the mapping (a mapping that outgrows its span is moved, as a kernel would)
static inline size_t anon_span(size_t len) {
  if (G.w.max_anon <= 0) return MAX_ANON_DEFAULT + PAGE;
  return std::min<size_t>(max_anon(), 2 * len + (256u << 10)) + PAGE;
}
static const int FD_BASE = 1000;
// descriptor numbers: the k-th descriptor of a run is FD_BASE+k; with a world in which descriptor 0 is free
// (the caller closed stdin) the first one is 0, as open(2) hands out the lowest free number
static inline int fd_of_index(int k);
static inline int index_of_fd(int fd);

static __thread OpCtx *t_ctx = nullptr;
OpCtx *cur_ctx() { return t_ctx; }
void set_cur_ctx(OpCtx *c) { t_ctx = c; }
static inline bool in_lib() { return t_ctx && t_ctx->in_lib; }

static inline int fd_of_index(int k) { return (k == 0 && G.w.fd0_free) ? 0 : FD_BASE + k; }
static inline int index_of_fd(int fd) {
  if (fd == 0 && G.w.fd0_free) return 0;
  if (fd < FD_BASE) return -1;
  return fd - FD_BASE;
}

void OpCtx::reset_op(const std::vector<EnvAns> *e, uint64_t uid) {
  env = e;
  op_uid = uid;
  memset(counts, 0, sizeof counts);
  memset(fired, 0, sizeof fired);
  fired_total = 0;
  fault_sig = 0;
  fault_write = fault_exec = false;
  fault_addr = 0;
  exit_status = 0;
  mremap_moves = mremap_calls = 0;
  soft_faults = 0;
  sim_error.clear();
}

SimStats &stats() { return G.st; }
const World &world() { return G.w; }
FILE *real_out() { return G.real_out ? G.real_out : stdout; }
FILE *real_err() { return G.real_err ? G.real_err : stderr; }

// Look up the plan's answer for the nth call of this kind in the current operation.
// Also counts, traces and yields (a wrapped call is a preemption point in fine mode).
static const EnvAns *answer(int kind) {
  OpCtx *c = t_ctx;
  int nth = c->counts[kind]++;
  G.st.calls[kind]++;
  if (c->trace) c->trace->push_back(CallRec{kind, nth});
  sim_yield_call(kind);
  if (!c->env) return nullptr;
  for (const EnvAns &e : *c->env)
    if (e.call == kind && e.nth == nth && e.ans != ANS_DEFAULT) return &e;
  return nullptr;
}
static void note_fired(int kind) {
  OpCtx *c = t_ctx;
  c->fired[kind]++;
  c->fired_total++;
  G.st.fired[kind]++;
}
static void sim_reject(const std::string &why) {
  OpCtx *c = t_ctx;
  G.st.sim_errors++;
  if (c && c->sim_error.empty()) c->sim_error = why;
}

// ---- arena ------------------------------------------------------------------------------
bool addr_in_arena(uintptr_t a) { return a >= (uintptr_t)G.arena && a < (uintptr_t)G.arena + ARENA_SIZE; }

static Island *island_new(int kind, size_t len, int prot, size_t span) {
  len = (len + PAGE - 1) & ~(PAGE - 1);
  if (len == 0) len = PAGE;
  span = std::max(span, len);
  span = (span + PAGE - 1) & ~(PAGE - 1);
  uint8_t *base = G.bump + 16 * PAGE;  // inaccessible gap in front
  if (base + span + 16 * PAGE > G.arena + ARENA_LO + (3ULL << 30)) return nullptr;
  G.bump = base + span;
  if (mprotect(base, len, prot) != 0) return nullptr;
  Island is;
  is.base = base;
  is.len = len;
  is.span = span;
  is.kind = kind;
  is.prot = prot;
  is.live = true;
  is.id = (int)G.islands.size();
  G.islands.push_back(is);
  return &G.islands.back();
}
static void island_release(Island *is) {
  if (!is->live) return;
  mprotect(is->base, is->len, PROT_NONE);
  madvise(is->base, is->len, MADV_DONTNEED);
  is->live = false;
}
Island *island_of(const void *p) {
  uintptr_t a = (uintptr_t)p;
  for (Island &is : G.islands)
    if (is.live && a >= (uintptr_t)is.base && a < (uintptr_t)is.base + is.len) return &is;
  return nullptr;
}
static Island *island_at_base(const void *p) {
  for (Island &is : G.islands)
    if (is.live && is.base == p) return &is;
  return nullptr;
}

std::string describe_addr(uintptr_t addr, const uint8_t *rel_base, size_t rel_len) {
  char buf[160];
  if (addr < 65536) {
    snprintf(buf, sizeof buf, "null page");
    return buf;
  }
  if (rel_base) {
    long long d = (long long)addr - (long long)(uintptr_t)rel_base;
    if (d > -(1LL << 33) && d < (1LL << 33)) {
      snprintf(buf, sizeof buf, "buffer%+lld (n=%zu)", d, rel_len);
      return buf;
    }
  }
  if (addr_in_arena(addr)) {
    // nearest island
    const Island *best = nullptr;
    long long bestd = 0;
    for (const Island &is : G.islands) {
      long long d = (long long)addr - (long long)(uintptr_t)is.base;
      if (!best || llabs(d) < llabs(bestd)) { best = &is; bestd = d; }
    }
    if (best) {
      static const char *kn[] = {"free", "callerbuf", "anonmap", "filemap", "behind"};
      snprintf(buf, sizeof buf, "island#%d(%s,len=%zu,%s)%+lld", best->id, kn[best->kind], best->len,
               best->live ? "live" : "released", bestd);
      return buf;
    }
    return "arena";
  }
  return "outside arena";
}

static void fill_bytes(uint8_t *p, size_t n, int fill, uint64_t seed) {
  if (fill >= 0) {
    memset(p, fill, n);
  } else {
    Rng r(seed);
    size_t i = 0;
    for (; i + 8 <= n; i += 8) {
      uint64_t v = r.next();
      memcpy(p + i, &v, 8);
    }
    for (; i < n; i++) p[i] = (uint8_t)r.next();
  }
}
static inline uint8_t canary_byte(uintptr_t off) { return (uint8_t)(0xA5 ^ (off * 131) ^ (off >> 7)); }

int extbuf_new(size_t n, int guard_side, int fill, uint64_t fillseed) {
  Island *is = island_new(IS_EXT, n ? n : 1, PROT_READ | PROT_WRITE | PROT_EXEC, 0);
  if (!is) return -1;
  is->user_len = n;
  is->user = guard_side == 0 ? is->base + is->len - n : is->base;
  for (size_t i = 0; i < is->len; i++) is->base[i] = canary_byte(i);
  fill_bytes(is->user, n, fill, fillseed);
  return is->id;
}
uint8_t *extbuf_ptr(int id) { return G.islands[id].user; }
size_t extbuf_len(int id) { return G.islands[id].user_len; }
void extbuf_free(int id) { island_release(&G.islands[id]); }
bool extbuf_canary_ok(int id, long *first_bad_delta) {
  Island &is = G.islands[id];
  if (!is.live) return true;
  size_t ulo = is.user - is.base, uhi = ulo + is.user_len;
  for (size_t i = 0; i < is.len; i++) {
    if (i >= ulo && i < uhi) { i = uhi - 1; continue; }
    if (is.base[i] != canary_byte(i)) {
      if (first_bad_delta) *first_bad_delta = (long)i - (long)ulo;
      return false;
    }
  }
  return true;
}
// Text handed to the library: its terminating NUL is the last accessible byte, an inaccessible page
// follows.  Most calls reuse a per-thread persistent island (no system call); every eighth call, and
// every call that wants the text read-only, gets a fresh island with exact protection.
static __thread uint8_t *t_text_base = nullptr;
static __thread size_t t_text_len = 0;
static __thread unsigned t_text_calls = 0;

char *textbuf_new(const std::string &text, bool writable) {
  size_t n = text.size() + 1;
  if (writable || (++t_text_calls & 7) != 0) {
    if (n > t_text_len) {
      size_t want = std::max<size_t>(65536, (n + PAGE - 1) & ~(PAGE - 1));
      // persistent islands grow downwards from the top of the island region; never reclaimed
      uint8_t *base = G.tbump - want - 16 * PAGE;
      if (base > G.arena + ARENA_LO + (3ULL << 30) && mprotect(base, want, PROT_READ | PROT_WRITE) == 0) {
        G.tbump = base;
        t_text_base = base;
        t_text_len = want;
      }
    }
    if (n <= t_text_len) {
      uint8_t *p = t_text_base + t_text_len - n;
      memcpy(p, text.data(), text.size());
      p[text.size()] = 0;
      if (p > t_text_base) p[-1] = ';';
      return (char *)p;
    }
  }
  Island *is = island_new(IS_EXT, n, PROT_READ | PROT_WRITE, 0);
  if (!is) return nullptr;
  is->user_len = n;
  is->user = is->base + is->len - n;
  memset(is->base, 0x3b, is->len);  // ';' in front: harmless if read as text
  memcpy(is->user, text.data(), text.size());
  is->user[text.size()] = 0;
  if (!writable) mprotect(is->base, is->len, PROT_READ);
  return (char *)is->user;
}

// ---- files ------------------------------------------------------------------------------
// symbolic links (kind 3, data = target): every path-taking call but lstat/rename/unlink follows them
static std::string resolve_links(const char *path) {
  std::string cur = path;
  for (int hops = 0; hops < 8; hops++) {
    bool again = false;
    for (SimFile &f : G.files)
      if (f.kind == 3 && f.path == cur) {
        cur = f.data;
        again = true;
        break;
      }
    if (!again) break;
  }
  return cur;
}
SimFile *file_lookup(const std::string &path) {
  for (SimFile &f : G.files)
    if (f.path == path) return &f;
  return nullptr;
}
const std::vector<SimFile> &files() { return G.files; }

static std::string dir_of(const std::string &p) {
  size_t k = p.rfind('/');
  if (k == std::string::npos) return ".";
  if (k == 0) return "/";
  return p.substr(0, k);
}
static bool dir_exists(const std::string &d) {
  if (d == "." || d == "/" || d == "/sim" || d == "/dev" || d == "/tmp") return true;
  for (SimFile &f : G.files)
    if (f.kind == 2 && f.path == d) return true;
  return false;
}

// PATH_MAX / NAME_MAX of the simulated file system (as on Linux)
static bool name_too_long(const char *path) {
  size_t n = strlen(path);
  if (n >= 4096) return true;
  size_t comp = 0;
  for (size_t i = 0; i < n; i++) {
    comp = path[i] == '/' ? 0 : comp + 1;
    if (comp > 255) return true;
  }
  return false;
}
bool path_writable(const std::string &p) {
  if (p == "/dev/stdout") return true;
  if (name_too_long(p.c_str())) return false;
  for (SimFile &f : G.files)
    if (f.path == p) return f.kind == 0;
  return !p.empty() && dir_exists(dir_of(p));
}

// ---- stdio cookies ----------------------------------------------------------------------
static ssize_t ck_out_write(void *cookie, const char *buf, size_t n) {
  HarnessScope hs_;
  OutStream *os = (OutStream *)cookie;
  if (os->failed) {
    errno = os->fail_errno;
    return 0;
  }
  int kind = os->file < 0 ? K_OUT : K_CWRITE;
  const EnvAns *a = in_lib() ? answer(kind) : nullptr;
  size_t take = n;
  if (a && a->ans == ANS_FAIL && a->err == EAGAIN && n > 0) {
    // a one-off failure (e.g. a non-blocking pipe that is full right now): this block is lost, later writes work.
    // Not sticky, and not counted as a refusal: the process may give up (non-zero status) - but if it reports
    // success, its output is judged in full
    cur_ctx()->soft_faults++;
    G.st.transient_short_writes++;
    errno = EAGAIN;
    return 0;
  }
  if (a && a->ans == ANS_SHORT && a->err == EINTR && n > 1) {
    // transient partial write(2): stdio has to write the rest itself
    cur_ctx()->soft_faults++;
    G.st.transient_short_writes++;
    take = std::min<size_t>(n - 1, (size_t)std::max(1L, a->arg));
    out_store(os, buf, take);
    return (ssize_t)take;
  }
  if (a && (a->ans == ANS_FAIL || a->ans == ANS_SHORT)) {
    note_fired(kind);
    take = a->ans == ANS_FAIL ? 0 : std::min<size_t>(n ? n - 1 : 0, (size_t)std::max(0L, a->arg));  // strictly short
    os->failed = true;
    os->fail_errno = a->err ? a->err : ENOSPC;
  }
  out_store(os, buf, (os->file >= 0 && G.w.sabotage == 2 && take > 0) ? take - 1 : take);
  if (take < n) errno = os->fail_errno;
  return (ssize_t)take;
}
static void out_store(OutStream *os, const char *buf, size_t take) {
  if (os->file < 0) {
    G.out_cap.append(buf, take);
    return;
  }
  std::string &d = G.files[os->file].data;
  if (os->at < 0) {
    d.append(buf, take);
    return;
  }
  if (d.size() < (size_t)os->at + take) d.resize((size_t)os->at + take);
  memcpy(&d[(size_t)os->at], buf, take);
  os->at += (long)take;
}
static int ck_out_close(void *cookie) {
  HarnessScope hs_;
  OutStream *os = (OutStream *)cookie;
  if (os != &G.out_state) delete os;
  return 0;
}
static ssize_t ck_err_write(void *, const char *, size_t n) {
  HarnessScope hs_;
  G.st.stderr_bytes += (long)n;
  return (ssize_t)n;
}
struct InStream {
  std::string data;
  size_t pos = 0;
  bool is_dir = false;
  int file = -1;  // index into the simulated files
  int fd = -1;    // descriptor handed out by fileno(), if any
};
static ssize_t ck_file_read(void *cookie, char *buf, size_t n) {
  HarnessScope hs_;
  InStream *is = (InStream *)cookie;
  const EnvAns *a = in_lib() ? answer(K_READ) : nullptr;
  if (is->is_dir) {
    errno = EISDIR;
    return -1;
  }
  if (a && a->ans == ANS_FAIL && a->err != EINTR) {
    note_fired(K_READ);
    errno = a->err ? a->err : EIO;
    return -1;
  }
  size_t left = is->data.size() > is->pos ? is->data.size() - is->pos : 0;
  size_t take = std::min(left, n);
  if (a && a->ans == ANS_SHORT && take > 1) {
    G.st.short_reads++;
    take = std::min<size_t>(take, (size_t)std::max(1L, a->arg));
  }
  memcpy(buf, is->data.data() + is->pos, take);
  is->pos += take;
  return (ssize_t)take;
}
static int ck_file_seek(void *cookie, off64_t *off, int whence) {
  InStream *is = (InStream *)cookie;
  long long base = whence == SEEK_SET ? 0 : whence == SEEK_CUR ? (long long)is->pos : (long long)is->data.size();
  long long np = base + *off;
  if (np < 0) return -1;
  is->pos = (size_t)np;
  *off = np;
  return 0;
}
static int ck_file_close(void *cookie) {
  delete (InStream *)cookie;
  return 0;
}

static ssize_t ck_in_read(void *, char *buf, size_t n) {
  HarnessScope hs_;
  if (in_lib()) answer(K_IN);
  size_t left = G.in_data.size() - G.in_pos;
  if (left == 0) return 0;
  size_t chunk = left;
  if (!G.in_chunks.empty()) {
    int c = G.in_chunks[G.in_chunk_i % G.in_chunks.size()];
    G.in_chunk_i++;
    if (c > 0) chunk = (size_t)c;
  }
  size_t take = std::min(std::min(left, chunk), n);
  memcpy(buf, G.in_data.data() + G.in_pos, take);
  G.in_pos += take;
  return (ssize_t)take;
}

void stdin_set(const std::string &data, const std::vector<int> &chunks) {
  G.in_data = data;
  G.in_pos = 0;
  G.in_chunks = chunks;
  G.in_chunk_i = 0;
  if (G.sim_in) {
    // drop whatever stdio buffered from a previous simulated process
    fclose(G.sim_in);
  }
  cookie_io_functions_t io = {ck_in_read, nullptr, nullptr, nullptr};
  G.sim_in = fopencookie(nullptr, "r", io);
  stdin = G.sim_in;
}
std::string &stdout_capture() {
  fflush(G.sim_out);
  return G.out_cap;
}
void stdout_reset() {
  fflush(G.sim_out);
  clearerr(G.sim_out);
  G.out_cap.clear();
  G.out_state.failed = false;
  G.out_state.fail_errno = 0;
}

// ---- signals ------------------------------------------------------------------------------
static void fatal_outside_op(int sig, uintptr_t addr) {
  // a crash while no operation is executing is a bug in the harness: die loudly
  char buf[128];
  int n = snprintf(buf, sizeof buf, "DIED harness signal=%d addr=%s\n", sig,
                   addr < 65536 ? "nullpage" : (addr_in_arena(addr) ? "arena" : "other"));
  if (__real_write(2, buf, n) < 0) {}
  if (__real_write(1, buf, n) < 0) {}
  void *frames[32];
  int nf = backtrace(frames, 32);
  backtrace_symbols_fd(frames, nf, 2);
  _exit(3);
}
static void on_signal(int sig, siginfo_t *si, void *uc_) {
  OpCtx *c = t_ctx;
  uintptr_t addr = (uintptr_t)si->si_addr;
  if (!c || !c->in_lib) fatal_outside_op(sig, addr);
  ign_on();
  ucontext_t *uc = (ucontext_t *)uc_;
  c->fault_sig = sig;
  c->fault_addr = addr;
  c->fault_write = false;
  c->fault_exec = false;
  if (sig == SIGSEGV || sig == SIGBUS) {
    unsigned long err = (unsigned long)uc->uc_mcontext.gregs[REG_ERR];
    c->fault_write = (err & 2) != 0;
    c->fault_exec = (err & 16) != 0;
  }
  c->in_lib = 0;
  sim_steps_end();
  siglongjmp(c->jb, J_FAULT);
}

static uint8_t g_altstack[1 << 16];

void sim_init(bool fixed_arena) {
  if (G.inited) return;
  G.inited = true;
  void *want = fixed_arena ? (void *)ARENA_FIXED : nullptr;
  int flags = MAP_PRIVATE | MAP_ANONYMOUS | MAP_NORESERVE;
#ifdef MAP_FIXED_NOREPLACE
  if (fixed_arena) flags |= MAP_FIXED_NOREPLACE;
#endif
  void *p = __real_mmap(want, ARENA_SIZE, PROT_NONE, flags, -1, 0);
  if (p == MAP_FAILED) {
    perror("arena");
    _exit(3);
  }
  G.arena = (uint8_t *)p;
  G.bump = G.arena + ARENA_LO;
  G.tbump = G.arena + ARENA_HI;

  // harness output keeps the real descriptors; the library sees simulator streams
  G.real_out = fdopen(dup(1), "w");
  G.real_err = fdopen(dup(2), "w");
  cookie_io_functions_t io_out = {nullptr, ck_out_write, nullptr, ck_out_close};
  G.sim_out = fopencookie(&G.out_state, "w", io_out);
  setvbuf(G.sim_out, nullptr, _IOFBF, 4096);
  cookie_io_functions_t io_err = {nullptr, ck_err_write, nullptr, nullptr};
  G.sim_err = fopencookie(nullptr, "w", io_err);
  setvbuf(G.sim_err, nullptr, _IOFBF, 4096);
  stdout = G.sim_out;
  stderr = G.sim_err;
  stdin_set("", {});

  stack_t ss;
  ss.ss_sp = g_altstack;
  ss.ss_size = sizeof g_altstack;
  ss.ss_flags = 0;
  sigaltstack(&ss, nullptr);
  struct sigaction sa;
  memset(&sa, 0, sizeof sa);
  sa.sa_sigaction = on_signal;
  sa.sa_flags = SA_SIGINFO | SA_NODEFER | SA_ONSTACK;
  sigemptyset(&sa.sa_mask);
  sigaction(SIGSEGV, &sa, nullptr);
  sigaction(SIGBUS, &sa, nullptr);
  sigaction(SIGILL, &sa, nullptr);
  sigaction(SIGFPE, &sa, nullptr);
  sigaction(SIGTRAP, &sa, nullptr);
}

void sim_begin_run(const World &w) {
  G.w = w;
  G.files.clear();
  for (const FileSpec &f : w.files) {
    SimFile sf;
    sf.path = f.path;
    sf.data = f.data;
    sf.kind = f.kind;
    G.files.push_back(sf);
  }
  G.fds.clear();
  G.heap.clear();
  stdout_reset();
}

void count_leaks() {
  G.st.leaks_blocks += (long)G.heap.size();
  for (Island &is : G.islands)
    if (is.live && (is.kind == IS_ANON || is.kind == IS_FILEMAP)) G.st.leaks_maps++;
  for (auto &fd : G.fds)
    if (fd.open) G.st.leaks_fds++;
}

void sim_end_run() {
  for (Island &is : G.islands) island_release(&is);
  G.islands.clear();
  G.bump = G.arena + ARENA_LO;
  // heap blocks the library still holds are NOT freed behind its back (a tree may legitimately cache an
  // instance in a static); they were counted as leaks by count_leaks() and are simply forgotten
  G.heap.clear();
  for (auto &kv : G.ostreams) __real_fclose(kv.first);
  G.ostreams.clear();
  for (FILE *f : G.istreams) __real_fclose(f);
  G.istreams.clear();
  G.istream_cookie.clear();
  G.fds.clear();
}

// a simulated process has ended (exit or return from main): the OS reclaims what it held
void process_reclaim() {
  for (auto &kv : G.ostreams) __real_fclose(kv.first);  // exit() flushes and closes open streams
  G.ostreams.clear();
  for (FILE *f : G.istreams) __real_fclose(f);
  G.istreams.clear();
  G.istream_cookie.clear();
  for (auto &kv : G.heap) __real_free(kv.first);
  G.heap.clear();
  for (Island &is : G.islands)
    if (is.live && (is.kind == IS_ANON || is.kind == IS_FILEMAP)) island_release(&is);
  for (auto &fd : G.fds) fd.open = false;
}

struct LibFrame {
  void (*fn)(void *);
  void *arg;
};

int run_in_lib(OpCtx *c, void (*fn)(void *), void *arg, long step_budget) {
  OpCtx *prev = t_ctx;
  t_ctx = c;
  int j = sigsetjmp(c->jb, 0);
  if (j == 0) {
    sim_steps_begin(step_budget);
    c->in_lib = 1;
    ign_off();
    fn(arg);
    ign_on();
    c->in_lib = 0;
    sim_steps_end();
  } else {
    ign_on();
    c->in_lib = 0;
  }
  t_ctx = prev;
  return j;
}

}  // namespace sim

using namespace sim;

// ---------------------------------------------------------------------------------------------
extern "C" void sim_hang_trap(void) {
  OpCtx *c = cur_ctx();
  if (!c || !c->in_lib) return;
  ign_on();
  c->in_lib = 0;
  siglongjmp(c->jb, J_HANG);
}

// ---- memory ---------------------------------------------------------------------------------
static inline int heap_junk() {
  static const unsigned char pat[] = {0x00, 0xFF, 0xA5, 0x01, 0x80, 0xFF, 0x7F, 0x00};
  return pat[(G.w.salt >> 7) & 7];
}
// Every block the process allocates carries a tail behind its last byte: code that the sanitizer cannot see (the
// assembled code asmline executes with -r) or that it sees too coarsely must not write past a heap block either -
// on a real allocator that lands in the next block's bookkeeping.
static const size_t HEAP_TAIL = 16;
static const unsigned char HEAP_TAIL_BYTE = 0xC5;
static void heap_tail_set(void *p, size_t n) { memset((char *)p + n, HEAP_TAIL_BYTE, HEAP_TAIL); }
static void heap_tail_check(void *p, size_t n, const char *when) {
  const unsigned char *t = (const unsigned char *)p + n;
  for (size_t i = 0; i < HEAP_TAIL; i++)
    if (t[i] != HEAP_TAIL_BYTE) {
      if (G.heap_overrun.empty()) {
        char b[160];
        snprintf(b, sizeof b, "heap block of %zu bytes overrun: byte %zu behind its end was overwritten (found at %s)", n, i, when);
        G.heap_overrun = b;
      }
      return;
    }
}
std::string sim::heap_overrun_take() {
  for (auto &kv : G.heap) heap_tail_check(kv.first, kv.second, "the end of the operation");
  std::string r = G.heap_overrun;
  G.heap_overrun.clear();
  return r;
}
extern "C" void *__wrap_malloc(size_t n) {
  if (!in_lib()) return __real_malloc(n);
  HarnessScope hs_;
  const EnvAns *a = answer(K_MALLOC);
  if (a && a->ans == ANS_FAIL) {
    note_fired(K_MALLOC);
    errno = a->err ? a->err : ENOMEM;
    return nullptr;
  }
  void *p = __real_malloc(n + HEAP_TAIL);
  if (p) {
    G.heap[p] = n;
    memset(p, heap_junk(), n);  // malloc'ed memory is indeterminate: a pattern chosen by the plan's world, not the allocator's mood
    heap_tail_set(p, n);
  }
  return p;
}
extern "C" void *__wrap_calloc(size_t a_, size_t b_) {
  if (!in_lib()) return __real_calloc(a_, b_);
  HarnessScope hs_;
  const EnvAns *a = answer(K_CALLOC);
  if (a && a->ans == ANS_FAIL) {
    note_fired(K_CALLOC);
    errno = a->err ? a->err : ENOMEM;
    return nullptr;
  }
  if (b_ && a_ > ((size_t)-1 - HEAP_TAIL) / b_) {
    errno = ENOMEM;
    return nullptr;
  }
  void *p = __real_calloc(1, a_ * b_ + HEAP_TAIL);
  if (p) {
    G.heap[p] = a_ * b_;
    heap_tail_set(p, a_ * b_);
  }
  return p;
}
// realloc of a block the process allocated: one more way to ask for memory (a refusal leaves the old block alone)
extern "C" void *__real_realloc(void *, size_t);
extern "C" void *__wrap_realloc(void *p, size_t n) {
  if (!in_lib()) return __real_realloc(p, n);
  HarnessScope hs_;
  const EnvAns *a = answer(K_MALLOC);
  if (a && a->ans == ANS_FAIL && n > 0) {
    note_fired(K_MALLOC);
    errno = a->err ? a->err : ENOMEM;
    return nullptr;
  }
  size_t old_n = 0;
  bool tracked = false;
  if (p) {
    auto it = G.heap.find(p);
    if (it != G.heap.end()) {
      old_n = it->second;
      tracked = true;
      heap_tail_check(p, old_n, "realloc");
    }
  }
  if (p && !tracked) return __real_realloc(p, n);  // a block libc allocated itself (getline, ...): none of our business
  if (p && n == 0) {
    G.heap.erase(p);
    __real_free(p);
    return nullptr;
  }
  void *q = __real_realloc(p, n + HEAP_TAIL);
  if (q) {
    if (p) G.heap.erase(p);
    G.heap[q] = n;
    if (n > old_n) memset((char *)q + old_n, heap_junk(), n - old_n);
    heap_tail_set(q, n);
  }
  return q;
}
extern "C" void *__wrap_reallocarray(void *p, size_t a_, size_t b_) {
  if (b_ && a_ > (size_t)-1 / b_) {
    errno = ENOMEM;
    return nullptr;
  }
  return __wrap_realloc(p, a_ * b_);
}
extern "C" void __wrap_free(void *p) {
  if (!in_lib()) {
    __real_free(p);
    return;
  }
  HarnessScope hs_;
  answer(K_FREE);
  if (p) {
    auto it = G.heap.find(p);
    if (it != G.heap.end()) {
      heap_tail_check(p, it->second, "free");
      G.heap.erase(it);
    }
  }
  __real_free(p);
}

extern "C" void *__wrap_mmap(void *addr, size_t len, int prot, int flags, int fd, off_t off) {
  if (!in_lib()) return __real_mmap(addr, len, prot, flags, fd, off);
  HarnessScope hs_;
  bool anon = (flags & MAP_ANONYMOUS) != 0;
  const EnvAns *a = answer(anon ? K_MMAP_ANON : K_MMAP_FILE);
  if (a && a->ans == ANS_FAIL) {
    note_fired(anon ? K_MMAP_ANON : K_MMAP_FILE);
    errno = a->err ? a->err : ENOMEM;
    return MAP_FAILED;
  }
  if (len == 0 || addr != nullptr || off != 0) {
    errno = EINVAL;
    return MAP_FAILED;
  }
  if (anon) {
    if (len > max_anon()) {
      errno = ENOMEM;
      return MAP_FAILED;
    }
    Island *is = island_new(IS_ANON, len, prot, anon_span(len));
    if (!is) {
      errno = ENOMEM;
      return MAP_FAILED;
    }
    is->req_len = len;
    return is->base;
  }
  // file mapping
  int k = index_of_fd(fd);
  if (k < 0 || k >= (int)G.fds.size() || !G.fds[k].open) {
    errno = EBADF;
    return MAP_FAILED;
  }
  if (G.fds[k].file < 0) {  // a descriptor for the standard output
    errno = ENODEV;
    return MAP_FAILED;
  }
  SimFile &f = G.files[G.fds[k].file];
  if (f.kind == 2) {
    errno = ENODEV;
    return MAP_FAILED;
  }
  if (prot & PROT_WRITE && !(flags & MAP_PRIVATE)) {
    errno = EACCES;
    return MAP_FAILED;
  }
  size_t plen = (len + PAGE - 1) & ~(PAGE - 1);
  size_t behind = G.w.behind ? PAGE : 0;
  Island *is = island_new(IS_FILEMAP, plen + behind, PROT_READ | PROT_WRITE, 0);
  if (!is) {
    errno = ENOMEM;
    return MAP_FAILED;
  }
  is->req_len = len;
  memset(is->base, 0, plen);
  size_t ncopy = std::min(f.data.size(), plen);
  memcpy(is->base, f.data.data(), ncopy);
  if (behind) {
    // the neighbouring mapping that happens to follow: garbage without any NUL, or zeros
    if (G.w.behind == 1) {
      for (size_t i = 0; i < PAGE; i++) is->base[plen + i] = (uint8_t)("\nmov rax, 0x41\nret ;"[i % 21]);
    } else
      memset(is->base + plen, 0, PAGE);
  }
  // pages wholly beyond the end of the file raise SIGBUS on a real kernel: make them inaccessible
  size_t file_pages = (f.data.size() + PAGE - 1) & ~(PAGE - 1);
  mprotect(is->base, is->len, prot & (PROT_READ | PROT_WRITE | PROT_EXEC));
  if (file_pages < plen) mprotect(is->base + file_pages, plen - file_pages, PROT_NONE);
  if (behind) mprotect(is->base + plen, PAGE, PROT_READ);
  is->prot = prot;
  return is->base;
}

extern "C" void *__wrap_mremap(void *old, size_t old_len, size_t new_len, int flags, ...) {
  if (!in_lib()) {
    va_list ap;
    va_start(ap, flags);
    void *na = va_arg(ap, void *);
    va_end(ap);
    return __real_mremap(old, old_len, new_len, flags, na);
  }
  HarnessScope hs_;
  OpCtx *c = cur_ctx();
  const EnvAns *a = answer(K_MREMAP);
  c->mremap_calls++;
  Island *is = island_at_base(old);
  if (!is || (is->kind != IS_ANON)) {
    sim_reject("mremap: address is not the start of a live anonymous mapping");
    errno = EFAULT;
    return MAP_FAILED;
  }
  if (((old_len + PAGE - 1) & ~(PAGE - 1)) != ((is->req_len + PAGE - 1) & ~(PAGE - 1))) {  // the kernel rounds to pages, too
    sim_reject("mremap: old length differs from the mapping's length");
    errno = EINVAL;
    return MAP_FAILED;
  }
  if (a && a->ans == ANS_FAIL) {
    note_fired(K_MREMAP);
    errno = a->err ? a->err : ENOMEM;
    return MAP_FAILED;
  }
  if (new_len == 0) {
    errno = EINVAL;
    return MAP_FAILED;
  }
  if (new_len > max_anon()) {  // runaway guard: a real system would run out eventually, too
    errno = ENOMEM;
    return MAP_FAILED;
  }
  bool move;
  if (a && a->ans == ANS_MOVE)
    move = true;
  else if (a && a->ans == ANS_INPLACE)
    move = false;
  else if (G.w.mem_policy == 1)
    move = true;
  else if (G.w.mem_policy == 2)
    move = mix64(G.w.salt ^ c->op_uid, (uint64_t)c->counts[K_MREMAP]) & 1;
  else
    move = false;
  size_t new_plen = (new_len + PAGE - 1) & ~(PAGE - 1);
  if (!move && new_plen > is->span) move = true;
  if (move && !(flags & MREMAP_MAYMOVE)) {
    errno = ENOMEM;
    return MAP_FAILED;
  }
  if (!move) {
    if (new_plen > is->len) {
      mprotect(is->base + is->len, new_plen - is->len, is->prot);
    } else if (new_plen < is->len) {
      mprotect(is->base + new_plen, is->len - new_plen, PROT_NONE);
      madvise(is->base + new_plen, is->len - new_plen, MADV_DONTNEED);
    }
    is->len = new_plen;
    is->req_len = new_len;
    G.st.mremap_inplace++;
    return is->base;
  }
  int old_id = is->id;
  int prot = is->prot;
  Island *ni = island_new(IS_ANON, new_len, prot | PROT_WRITE, anon_span(new_len));
  if (!ni) {
    errno = ENOMEM;
    return MAP_FAILED;
  }
  Island *oi = &G.islands[old_id];  // vector may have reallocated
  ni->req_len = new_len;
  memcpy(ni->base, oi->base, std::min(oi->len, ni->len));
  if (!(prot & PROT_WRITE)) mprotect(ni->base, ni->len, prot);
  ni->prot = prot;
  uint8_t *stale = oi->base;
  island_release(oi);
  G.st.mremap_moves++;
  c->mremap_moves++;
  if (G.w.sabotage == 1) {
    G.st.sabotage_applied++;
    return stale;
  }
  return ni->base;
}

extern "C" int __wrap_munmap(void *p, size_t len) {
  if (!in_lib()) return __real_munmap(p, len);
  HarnessScope hs_;
  const EnvAns *a = answer(K_MUNMAP);
  if (a && a->ans == ANS_FAIL) {
    note_fired(K_MUNMAP);
    errno = a->err ? a->err : EINVAL;
    return -1;
  }
  Island *is = island_at_base(p);
  if (!is || (is->kind != IS_ANON && is->kind != IS_FILEMAP)) {
    sim_reject("munmap: address is not the start of a live mapping");
    errno = EINVAL;
    return -1;
  }
  if (len == 0) {
    sim_reject("munmap: zero length");
    errno = EINVAL;
    return -1;
  }
  size_t plen = (len + PAGE - 1) & ~(PAGE - 1);
  size_t have = (is->req_len + PAGE - 1) & ~(PAGE - 1);
  if (plen != have) {
    char b[128];
    snprintf(b, sizeof b, "munmap: length %zu does not cover the mapping of %zu bytes exactly", len, is->req_len);
    sim_reject(b);
    if (plen > have) {
      errno = EINVAL;
      return -1;
    }
  }
  island_release(is);
  return 0;
}

// ---- files ------------------------------------------------------------------------------------
extern "C" int __wrap_open(const char *path, int flags, ...) {
  mode_t mode = 0;
  if (flags & O_CREAT) {
    va_list ap;
    va_start(ap, flags);
    mode = va_arg(ap, mode_t);
    va_end(ap);
  }
  if (!in_lib()) return __real_open(path, flags, mode);
  HarnessScope hs_;
  const EnvAns *a = answer(K_OPEN);
  if (a && a->ans == ANS_FAIL && a->err == EINTR) {  // interrupted: nothing was opened; retrying is as legal as giving up
    cur_ctx()->soft_faults++;
    errno = EINTR;
    return -1;
  }
  if (a && a->ans == ANS_FAIL) {
    note_fired(K_OPEN);
    errno = a->err ? a->err : EMFILE;
    return -1;
  }
  if (name_too_long(path)) {
    errno = ENAMETOOLONG;
    return -1;
  }
  if (G.w.fd_limit > 0) {
    int held = 0;
    for (const SimState::Fd &x : G.fds) held += x.open;
    if (held >= G.w.fd_limit) {  // the process's own doing, not an injected refusal
      G.st.fd_limit_hits++;
      errno = EMFILE;
      return -1;
    }
  }
  const bool wr = (flags & O_ACCMODE) != O_RDONLY;
  if (wr && !strcmp(path, "/dev/stdout")) {  // another descriptor for the process's standard output
    SimState::Fd fd;
    fd.open = true;
    fd.writable = true;
    fd.to_stdout = true;
    G.fds.push_back(fd);
    return fd_of_index((int)G.fds.size() - 1);
  }
  const std::string rpath_ = resolve_links(path);
  path = rpath_.c_str();
  int fi = -1;
  for (size_t i = 0; i < G.files.size(); i++)
    if (G.files[i].path == path) fi = (int)i;
  if (fi < 0) {
    if (!(flags & O_CREAT)) {
      errno = ENOENT;
      return -1;
    }
    std::string p(path);
    if (p.empty() || !dir_exists(dir_of(p))) {
      errno = ENOENT;
      return -1;
    }
    SimFile sf;
    sf.path = p;
    G.files.push_back(sf);
    fi = (int)G.files.size() - 1;
  } else if ((flags & O_CREAT) && (flags & O_EXCL)) {
    errno = EEXIST;
    return -1;
  }
  if (G.files[fi].kind == 1) {
    errno = EACCES;
    return -1;
  }
  if (G.files[fi].kind == 4 && (wr || (flags & O_NOATIME))) {
    // somebody else's file: readable, but neither writable nor open to O_NOATIME (only the owner may ask for that)
    errno = wr ? EACCES : EPERM;
    return -1;
  }
  if (G.files[fi].kind == 2 && wr) {
    errno = EISDIR;
    return -1;
  }
  if (wr) {
    if (flags & O_TRUNC) G.files[fi].data.clear();
    G.files[fi].written = true;
    G.files[fi].fopen_count++;
  }
  SimState::Fd fd;
  fd.open = true;
  fd.file = fi;
  fd.pos = (flags & O_APPEND) ? G.files[fi].data.size() : 0;
  fd.writable = wr;
  fd.append = (flags & O_APPEND) != 0;
  G.fds.push_back(fd);
  return fd_of_index((int)G.fds.size() - 1);
}
// write(2) from real code: to a descriptor of the simulated file system (a tree that bypasses stdio),
// or to the process's stdout/stderr
extern "C" ssize_t __wrap_write(int fd, const void *buf, size_t n) {
  if (!in_lib()) return __real_write(fd, buf, n);
  HarnessScope hs_;
  if (fd == 2) {
    G.st.stderr_bytes += (long)n;
    return (ssize_t)n;
  }
  bool to_stdout = fd == 1;
  if (fd != 1) {
    int k1 = index_of_fd(fd);
    if (k1 >= 0 && k1 < (int)G.fds.size() && G.fds[k1].open && G.fds[k1].to_stdout) to_stdout = true;
  }
  int kind = to_stdout ? K_OUT : K_CWRITE;
  const EnvAns *a = answer(kind);
  size_t take = n;
  int err = 0;
  // a refusal is sticky, as for streams: a full disk stays full, a broken pipe stays broken (a caller that retries
  // after a partial write meets the error itself on the next call)
  bool *failedp = &G.out_state.failed;
  int *errp = &G.out_state.fail_errno;
  if (fd != 1) {
    int k0 = index_of_fd(fd);
    if (k0 >= 0 && k0 < (int)G.fds.size() && G.fds[k0].open) {
      failedp = &G.fds[k0].wfailed;
      errp = &G.fds[k0].werrno;
    } else
      failedp = nullptr;
  }
  if (failedp && *failedp && n > 0) {
    errno = *errp;
    return -1;
  }
  if (a && a->ans == ANS_FAIL && a->err == EAGAIN && n > 0) {  // one-off, see ck_out_write
    cur_ctx()->soft_faults++;
    G.st.transient_short_writes++;
    errno = EAGAIN;
    return -1;
  }
  if (a && (a->ans == ANS_FAIL || a->ans == ANS_SHORT) && a->err == EINTR && n > 0) {
    // an interrupted write(2): nothing or a part was written, and the next call works again.  Legal at any
    // time and not a refusal: the caller may retry or give up, but must not report success for incomplete data.
    cur_ctx()->soft_faults++;
    G.st.transient_short_writes++;
    err = EINTR;
    take = (a->ans == ANS_FAIL || n == 1) ? 0 : std::min<size_t>(n - 1, (size_t)std::max(1L, a->arg));
  } else if (a && (a->ans == ANS_FAIL || a->ans == ANS_SHORT) && n > 0) {
    note_fired(kind);
    err = a->err ? a->err : ENOSPC;
    take = a->ans == ANS_FAIL ? 0 : std::min<size_t>(n - 1, (size_t)std::max(0L, a->arg));
    if (failedp) {
      *failedp = true;
      *errp = err;
    }
  }
  if (to_stdout) {
    G.out_cap.append((const char *)buf, take);
  } else {
    int k = index_of_fd(fd);
    if (k < 0 || k >= (int)G.fds.size() || !G.fds[k].open || !G.fds[k].writable) {
      errno = EBADF;
      return -1;
    }
    SimFile &f = G.files[G.fds[k].file];
    size_t pos = G.fds[k].append ? f.data.size() : G.fds[k].pos;
    if (f.data.size() < pos + take) f.data.resize(pos + take);
    size_t eff = (G.w.sabotage == 2 && take > 0) ? take - 1 : take;
    memcpy(&f.data[pos], buf, eff);
    if (eff < take) f.data.resize(pos + eff);
    G.fds[k].pos = pos + take;
  }
  if (take == 0 && err) {
    errno = err;
    return -1;
  }
  if (take < n) errno = err;
  return (ssize_t)take;
}
// fileno() of a simulated stream: a descriptor of the simulated file system, so that fstat(fileno(fp)) works
extern "C" int __real_fileno(FILE *);
extern "C" int __wrap_fileno(FILE *f) {
  if (!in_lib()) return __real_fileno(f);
  HarnessScope hs_;
  auto it = G.istream_cookie.find(f);
  if (it != G.istream_cookie.end()) {
    InStream *is = (InStream *)it->second;
    if (is->fd < 0 && is->file >= 0) {
      SimState::Fd fd;
      fd.open = true;
      fd.file = is->file;
      G.fds.push_back(fd);
      is->fd = fd_of_index((int)G.fds.size() - 1);
    }
    return is->fd;
  }
  if (f == G.sim_in) return 0;
  if (f == G.sim_out) return 1;
  if (f == G.sim_err) return 2;
  auto ot = G.ostreams.find(f);
  if (ot != G.ostreams.end()) {
    OutStream *os = ot->second;
    if (os->fd_index < 0) {  // the one descriptor this stream has: the same number every time
      SimState::Fd fd;
      fd.open = true;
      fd.file = os->file;
      fd.writable = true;
      fd.to_stdout = os->file < 0;
      G.fds.push_back(fd);
      os->fd_index = (int)G.fds.size() - 1;
    }
    return fd_of_index(os->fd_index);
  }
  return __real_fileno(f);
}
extern "C" int __wrap_fstat(int fd, struct stat *st) {
  if (!in_lib()) return __real_fstat(fd, st);
  HarnessScope hs_;
  const EnvAns *a = answer(K_FSTAT);
  if (a && a->ans == ANS_FAIL) {
    note_fired(K_FSTAT);
    errno = a->err ? a->err : EIO;
    return -1;
  }
  int k = index_of_fd(fd);
  if (k < 0 || k >= (int)G.fds.size() || !G.fds[k].open) {
    errno = EBADF;
    return -1;
  }
  if (G.fds[k].file < 0) {  // a descriptor for the standard output: a pipe
    memset(st, 0, sizeof *st);
    st->st_mode = S_IFIFO | 0600;
    st->st_blksize = 4096;
    return 0;
  }
  SimFile &f = G.files[G.fds[k].file];
  memset(st, 0, sizeof *st);
  st->st_size = f.kind == 2 ? 4096 : (off_t)f.data.size();
  st->st_mode = f.kind == 2 ? (S_IFDIR | 0755) : (S_IFREG | 0644);
  st->st_blksize = 4096;
  st->st_nlink = 1;
  return 0;
}
extern "C" int __real_stat(const char *, struct stat *);
extern "C" int __wrap_stat(const char *path, struct stat *st) {
  if (!in_lib()) return __real_stat(path, st);
  HarnessScope hs_;
  const EnvAns *a = answer(K_FSTAT);
  if (a && a->ans == ANS_FAIL) {
    note_fired(K_FSTAT);
    errno = a->err ? a->err : EIO;
    return -1;
  }
  const std::string rp = resolve_links(path);
  for (SimFile &f : G.files)
    if (f.path == rp) {
      memset(st, 0, sizeof *st);
      st->st_size = f.kind == 2 ? 4096 : (off_t)f.data.size();
      st->st_mode = f.kind == 2 ? (S_IFDIR | 0755) : (S_IFREG | (f.kind == 1 ? 0000 : 0644));
      st->st_blksize = 4096;
      st->st_nlink = 1;
      return 0;
    }
  errno = ENOENT;
  return -1;
}
extern "C" void fine_force_yield(void);
static void flock_release(int k) {
  if (G.fds[k].lock && G.fds[k].file >= 0) {
    SimFile &f = G.files[G.fds[k].file];
    if (G.fds[k].lock == 2 && f.lock_excl == k) f.lock_excl = -1;
    if (G.fds[k].lock == 1 && f.lock_shared > 0) f.lock_shared--;
  }
  G.fds[k].lock = 0;
}
// ---- calls a tree may add around its file handling: simulated faithfully rather than left to fail on the real kernel ----
extern "C" int __real_lstat(const char *, struct stat *);
extern "C" int __wrap_lstat(const char *path, struct stat *st) {
  if (!in_lib()) return __real_lstat(path, st);
  for (SimFile &f : G.files)
    if (f.kind == 3 && f.path == path) {  // the link itself: its size is the length of the target's name
      HarnessScope hs_;
      memset(st, 0, sizeof *st);
      st->st_size = (off_t)f.data.size();
      st->st_mode = S_IFLNK | 0777;
      st->st_blksize = 4096;
      st->st_nlink = 1;
      return 0;
    }
  return __wrap_stat(path, st);
}
extern "C" int __real_fsync(int);
static int sim_sync(int fd) {
  HarnessScope hs_;
  if (fd == 1 || fd == 2) {
    errno = EINVAL;  // a pipe
    return -1;
  }
  int k = index_of_fd(fd);
  if (k < 0 || k >= (int)G.fds.size() || !G.fds[k].open) {
    errno = EBADF;
    return -1;
  }
  if (G.fds[k].file < 0) {
    errno = EINVAL;
    return -1;
  }
  return 0;
}
extern "C" int __wrap_fsync(int fd) { return in_lib() ? sim_sync(fd) : __real_fsync(fd); }
extern "C" int __real_fdatasync(int);
extern "C" int __wrap_fdatasync(int fd) { return in_lib() ? sim_sync(fd) : __real_fdatasync(fd); }
extern "C" int __real_flock(int, int);
extern "C" int __wrap_flock(int fd, int op) {
  if (!in_lib()) return __real_flock(fd, op);
  HarnessScope hs_;
  int k = index_of_fd(fd);
  if (k < 0 || k >= (int)G.fds.size() || !G.fds[k].open || G.fds[k].file < 0) {
    errno = EBADF;
    return -1;
  }
  // locks belong to the open file description: two descriptors of one file conflict, also within one process
  for (int spin = 0;; spin++) {
    SimFile &f = G.files[G.fds[k].file];
    int want = (op & LOCK_UN) ? 0 : (op & LOCK_EX) ? 2 : 1;
    flock_release(k);
    if (want == 0) return 0;
    bool free_ = want == 2 ? (f.lock_excl < 0 && f.lock_shared == 0) : f.lock_excl < 0;
    if (free_) {
      if (want == 2) f.lock_excl = k; else f.lock_shared++;
      G.fds[k].lock = want;
      return 0;
    }
    if ((op & LOCK_NB) || spin > 2000) {
      errno = (op & LOCK_NB) ? EWOULDBLOCK : EDEADLK;
      return -1;
    }
    fine_force_yield();  // another caller holds it: let it run
  }
}
extern "C" int __real_rename(const char *, const char *);
extern "C" int __wrap_rename(const char *from, const char *to) {
  if (!in_lib()) return __real_rename(from, to);
  HarnessScope hs_;
  int fi = -1, ti = -1;
  for (size_t i = 0; i < G.files.size(); i++) {
    if (G.files[i].path == from) fi = (int)i;
    if (G.files[i].path == to) ti = (int)i;
  }
  if (fi < 0 || !*to || !dir_exists(dir_of(to))) {
    errno = ENOENT;
    return -1;
  }
  if (ti >= 0 && ti != fi) {
    if (G.files[ti].kind == 2) {
      errno = EISDIR;
      return -1;
    }
    G.files[ti].path = std::string(1, '\0') + "replaced";  // lives on only through descriptors that are open on it (no path names it)
  }
  G.files[fi].path = to;
  return 0;
}
extern "C" int __real_unlink(const char *);
extern "C" int __wrap_unlink(const char *path) {
  if (!in_lib()) return __real_unlink(path);
  HarnessScope hs_;
  for (SimFile &f : G.files)
    if (f.path == path && *path) {
      if (f.kind == 2) {
        errno = EISDIR;
        return -1;
      }
      f.path = std::string(1, '\0') + "unlinked";
      return 0;
    }
  errno = ENOENT;
  return -1;
}
extern "C" int __wrap_close(int fd) {
  if (!in_lib()) return __real_close(fd);
  HarnessScope hs_;
  answer(K_CLOSE);
  int k = index_of_fd(fd);
  if (k < 0 || k >= (int)G.fds.size() || !G.fds[k].open) {
    sim_reject("close: descriptor is not open");
    errno = EBADF;
    return -1;
  }
  flock_release(k);
  G.fds[k].open = false;
  return 0;
}
extern "C" ssize_t __wrap_read(int fd, void *buf, size_t n) {
  if (!in_lib()) return __real_read(fd, buf, n);
  HarnessScope hs_;
  const EnvAns *a = answer(K_READ);
  if (a && a->ans == ANS_FAIL && a->err == EINTR) {  // an interrupted read is legal at any time: not a refusal
    G.st.short_reads++;
    errno = EINTR;
    return -1;
  }
  if (a && a->ans == ANS_FAIL) {
    note_fired(K_READ);
    errno = a->err ? a->err : EIO;
    return -1;
  }
  int k = index_of_fd(fd);
  if (fd == 0 && (k < 0 || k >= (int)G.fds.size() || !G.fds[k].open)) {
    // the process's standard input, read without stdio: same data and chunking as the simulated stdin stream
    size_t left0 = G.in_data.size() - G.in_pos;
    if (left0 == 0) return 0;
    size_t chunk = left0;
    if (!G.in_chunks.empty()) {
      int c = G.in_chunks[G.in_chunk_i % G.in_chunks.size()];
      G.in_chunk_i++;
      if (c > 0) chunk = (size_t)c;
    }
    size_t take0 = std::min(std::min(left0, chunk), n);
    memcpy(buf, G.in_data.data() + G.in_pos, take0);
    G.in_pos += take0;
    return (ssize_t)take0;
  }
  if (k < 0 || k >= (int)G.fds.size() || !G.fds[k].open) {
    errno = EBADF;
    return -1;
  }
  if (G.fds[k].file < 0) {
    errno = EBADF;
    return -1;
  }
  SimFile &f = G.files[G.fds[k].file];
  if (f.kind == 2) {
    errno = EISDIR;
    return -1;
  }
  size_t left = f.data.size() > G.fds[k].pos ? f.data.size() - G.fds[k].pos : 0;
  size_t take = std::min(left, n);
  if (a && a->ans == ANS_SHORT && take > 0) {  // a short read is legal at any time: not a refusal
    G.st.short_reads++;
    take = std::min<size_t>(take, (size_t)std::max(1L, a->arg));
  }
  memcpy(buf, f.data.data() + G.fds[k].pos, take);
  G.fds[k].pos += take;
  return (ssize_t)take;
}

extern "C" FILE *__wrap_fopen(const char *path, const char *mode) {
  if (!in_lib()) return __real_fopen(path, mode);
  HarnessScope hs_;
  const EnvAns *a = answer(K_FOPEN);
  if (a && a->ans == ANS_FAIL && a->err == EINTR) {  // interrupted: nothing was opened; retrying is as legal as giving up
    cur_ctx()->soft_faults++;
    errno = EINTR;
    return nullptr;
  }
  if (a && a->ans == ANS_FAIL) {
    note_fired(K_FOPEN);
    errno = a->err ? a->err : EACCES;
    return nullptr;
  }
  if (name_too_long(path)) {
    errno = ENAMETOOLONG;
    return nullptr;
  }
  const std::string rpath_ = resolve_links(path);
  path = rpath_.c_str();
  bool wr = strchr(mode, 'w') != nullptr, ap = strchr(mode, 'a') != nullptr;
  if (!wr && !ap) {
    // reading through stdio (a tree may load its input with fopen/fread/getline instead of open/read)
    SimFile *sf = nullptr;
    for (SimFile &x : G.files)
      if (x.path == path) sf = &x;
    if (!sf) {
      errno = ENOENT;
      return nullptr;
    }
    if (sf->kind == 1) {
      errno = EACCES;
      return nullptr;
    }
    InStream *is = new InStream();
    is->data = sf->data;
    is->is_dir = sf->kind == 2;
    is->file = (int)(sf - &G.files[0]);
    cookie_io_functions_t rio = {ck_file_read, nullptr, ck_file_seek, ck_file_close};
    FILE *rf = fopencookie(is, "r", rio);
    if (!rf) {
      delete is;
      return nullptr;
    }
    G.istreams.insert(rf);
    G.istream_cookie[rf] = is;
    return rf;
  }
  std::string p(path);
  OutStream *os = new OutStream();
  if (p == "/dev/stdout") {
    os->file = -1;
  } else {
    int fi = -1;
    for (size_t i = 0; i < G.files.size(); i++)
      if (G.files[i].path == p) fi = (int)i;
    if (fi >= 0 && G.files[fi].kind == 2) {
      delete os;
      errno = EISDIR;
      return nullptr;
    }
    if (fi >= 0 && (G.files[fi].kind == 1 || G.files[fi].kind == 4)) {  // (writing: no permission / somebody else's file)
      delete os;
      errno = EACCES;
      return nullptr;
    }
    if (fi < 0) {
      if (p.empty() || !dir_exists(dir_of(p))) {
        delete os;
        errno = ENOENT;
        return nullptr;
      }
      SimFile sf;
      sf.path = p;
      G.files.push_back(sf);
      fi = (int)G.files.size() - 1;
    }
    if (wr) G.files[fi].data.clear();
    G.files[fi].written = true;
    G.files[fi].fopen_count++;
    os->file = fi;
  }
  cookie_io_functions_t io = {nullptr, ck_out_write, nullptr, ck_out_close};
  FILE *f = fopencookie(os, "w", io);
  if (!f) {
    delete os;
    return nullptr;
  }
  G.ostreams[f] = os;
  return f;
}
extern "C" size_t __wrap_fwrite(const void *ptr, size_t size, size_t n, FILE *f) {
  if (!in_lib() || G.ostreams.find(f) == G.ostreams.end()) return __real_fwrite(ptr, size, n, f);  // diagnostics on stderr etc.
  HarnessScope hs_;
  const EnvAns *a = answer(K_FWRITE);
  if (a && a->ans == ANS_SHORT && a->err == EINTR && size * n > 1) {
    // a transient short count (interrupted write): legal, later writes work again.  Not a refusal: the
    // caller may give up or retry, but must not claim success for an incomplete file.
    OpCtx *c = cur_ctx();
    c->soft_faults++;
    G.st.transient_short_writes++;
    size_t take = std::min<size_t>(n - 1, (size_t)std::max(1L, a->arg));
    return __real_fwrite(ptr, size, take, f);
  }
  if (a && (a->ans == ANS_FAIL || a->ans == ANS_SHORT) && size * n > 0) {  // nothing to refuse in an empty write
    note_fired(K_FWRITE);
    size_t take = a->ans == ANS_FAIL ? 0 : std::min<size_t>(n ? n - 1 : 0, (size_t)std::max(0L, a->arg));
    size_t r = take ? __real_fwrite(ptr, size, take, f) : 0;
    auto it = G.ostreams.find(f);
    if (it != G.ostreams.end()) {
      it->second->failed = true;
      it->second->fail_errno = a->err ? a->err : ENOSPC;
    }
    errno = a->err ? a->err : ENOSPC;
    return r;
  }
  return __real_fwrite(ptr, size, n, f);
}
extern "C" int __wrap_fclose(FILE *f) {
  if (!in_lib()) return __real_fclose(f);
  HarnessScope hs_;
  if (G.istreams.erase(f) > 0) {  // closing an input stream loses nothing: not a fault point
    auto it = G.istream_cookie.find(f);
    if (it != G.istream_cookie.end()) {
      InStream *is = (InStream *)it->second;
      if (is->fd >= 0 && index_of_fd(is->fd) >= 0 && index_of_fd(is->fd) < (int)G.fds.size()) G.fds[index_of_fd(is->fd)].open = false;
      G.istream_cookie.erase(it);
    }
    return __real_fclose(f);
  }
  const EnvAns *a = answer(K_FCLOSE);
  {
    auto ot = G.ostreams.find(f);
    if (ot != G.ostreams.end() && ot->second->fd_index >= 0 && ot->second->fd_index < (int)G.fds.size()) {
      flock_release(ot->second->fd_index);
      G.fds[ot->second->fd_index].open = false;  // closing the stream closes its descriptor
    }
  }
  bool known = G.ostreams.erase(f) > 0 || G.istreams.erase(f) > 0;
  if (!known && f != nullptr && f != stdout && f != stderr && f != stdin) sim_reject("fclose: stream was not opened by fopen");
  int r = __real_fclose(f);
  if (a && a->ans == ANS_FAIL) {
    note_fired(K_FCLOSE);
    errno = a->err ? a->err : EIO;
    return EOF;
  }
  return r;
}

// ---- process ---------------------------------------------------------------------------------
extern "C" void __wrap_exit(int status) {
  OpCtx *c = cur_ctx();
  if (!c || !c->in_lib) __real_exit(status);
  ign_on();
  answer(K_EXIT);
  c->exit_status = status;
  c->in_lib = 0;
  sim_steps_end();
  siglongjmp(c->jb, J_EXIT);
}
extern "C" time_t __wrap_time(time_t *t) {
  if (!in_lib()) return __real_time(t);
  HarnessScope hs_;
  answer(K_TIME);
  time_t v = (time_t)G.w.sim_epoch;
  if (t) *t = v;
  return v;
}

// ---- libc functions that are preemption points only -------------------------------------------------
// Edge callbacks give no yield point between two calls in one basic block, which is exactly where a
// libc function with hidden static state (strtok, rand, strerror, localtime, getenv ...) is dangerous.
// Every string/stdlib function the library uses today, and the classic stateful ones a change might
// introduce, are therefore wrapped: yield, then forward.  (ASan/TSan interceptors still see the call.)
#include <ctype.h>
#include <strings.h>
#define YIELD_WRAP(ret, name, params, args)                 \
  extern "C" ret __real_##name params;                      \
  extern "C" ret __wrap_##name params {                     \
    if (in_lib()) {                                         \
      G.st.calls[K_LIBC]++;                                 \
      sim_yield_call(K_LIBC);                               \
    }                                                       \
    return __real_##name args;                              \
  }
YIELD_WRAP(char *, strtok, (char *a, const char *b), (a, b))
YIELD_WRAP(char *, strtok_r, (char *a, const char *b, char **c), (a, b, c))
YIELD_WRAP(char *, strncpy, (char *a, const char *b, size_t n), (a, b, n))
YIELD_WRAP(char *, strcpy, (char *a, const char *b), (a, b))
YIELD_WRAP(char *, strcat, (char *a, const char *b), (a, b))
YIELD_WRAP(char *, strstr, (const char *a, const char *b), (a, b))
YIELD_WRAP(char *, strchr, (const char *a, int b), (a, b))
YIELD_WRAP(char *, strrchr, (const char *a, int b), (a, b))
YIELD_WRAP(int, strcmp, (const char *a, const char *b), (a, b))
YIELD_WRAP(int, strncmp, (const char *a, const char *b, size_t n), (a, b, n))
YIELD_WRAP(int, strcasecmp, (const char *a, const char *b), (a, b))
YIELD_WRAP(int, strncasecmp, (const char *a, const char *b, size_t n), (a, b, n))
YIELD_WRAP(size_t, strlen, (const char *a), (a))
YIELD_WRAP(unsigned long, strtoul, (const char *a, char **b, int c), (a, b, c))
YIELD_WRAP(long, strtol, (const char *a, char **b, int c), (a, b, c))
YIELD_WRAP(unsigned long long, strtoull, (const char *a, char **b, int c), (a, b, c))
YIELD_WRAP(int, atoi, (const char *a), (a))
YIELD_WRAP(int, rand, (void), ())
YIELD_WRAP(char *, strerror, (int e), (e))
YIELD_WRAP(char *, getenv, (const char *a), (a))
YIELD_WRAP(struct tm *, localtime, (const time_t *t), (t))
YIELD_WRAP(struct tm *, gmtime, (const time_t *t), (t))
YIELD_WRAP(char *, setlocale, (int c, const char *l), (c, l))
YIELD_WRAP(void *, memchr, (const void *a, int b, size_t n), (a, b, n))

// ---- blocking primitives under the baton scheduler ----------------------------------------------------
// Only one caller thread runs at a time.  A tree may legitimately serialise something with pthread_once or
// a mutex; if the holder is parked, blocking in the kernel would stop the whole simulation.  The init
// routine of pthread_once therefore runs without preemption, and a contended mutex makes the caller hand
// the baton on until it gets the lock.  (ASan/TSan interceptors still see the real calls.)
#include <pthread.h>
extern "C" void sim_no_preempt(int delta);
extern "C" void fine_force_yield(void);
extern "C" int __real_pthread_once(pthread_once_t *, void (*)(void));
extern "C" int __wrap_pthread_once(pthread_once_t *o, void (*fn)(void)) {
  if (!in_lib()) return __real_pthread_once(o, fn);
  sim_no_preempt(+1);
  int r = __real_pthread_once(o, fn);
  sim_no_preempt(-1);
  return r;
}
extern "C" int __real_pthread_mutex_lock(pthread_mutex_t *);
extern "C" int __wrap_pthread_mutex_lock(pthread_mutex_t *m) {
  if (!in_lib()) return __real_pthread_mutex_lock(m);
  for (int spins = 0;; spins++) {
    int r = pthread_mutex_trylock(m);
    if (r != EBUSY) return r;
    if (spins > 1000000) return __real_pthread_mutex_lock(m);
    fine_force_yield();
  }
}

// ---- a few more descriptor-level calls a tool may make on its standard streams ------------------------
extern "C" int __real_isatty(int);
extern "C" int __wrap_isatty(int fd) {
  if (!in_lib()) return __real_isatty(fd);
  errno = ENOTTY;  // the simulated process has pipes, not terminals
  return 0;
}
extern "C" off_t __real_lseek(int, off_t, int);
extern "C" off_t __wrap_lseek(int fd, off_t off, int whence) {
  if (!in_lib()) return __real_lseek(fd, off, whence);
  HarnessScope hs_;
  int k = index_of_fd(fd);
  if (fd <= 2 && (k < 0 || k >= (int)G.fds.size() || !G.fds[k].open)) {
    errno = ESPIPE;
    return (off_t)-1;
  }
  if (k < 0 || k >= (int)G.fds.size() || !G.fds[k].open) {
    errno = EBADF;
    return (off_t)-1;
  }
  if (G.fds[k].file < 0) {
    errno = ESPIPE;
    return (off_t)-1;
  }
  SimFile &f = G.files[G.fds[k].file];
  long long base = whence == SEEK_SET ? 0 : whence == SEEK_CUR ? (long long)G.fds[k].pos : (long long)f.data.size();
  long long np = base + off;
  if (np < 0) {
    errno = EINVAL;
    return (off_t)-1;
  }
  G.fds[k].pos = (size_t)np;
  return (off_t)np;
}
// fdopen() on a descriptor of the simulated file system
extern "C" FILE *__real_fdopen(int, const char *);
extern "C" FILE *__wrap_fdopen(int fd, const char *mode) {
  if (!in_lib()) return __real_fdopen(fd, mode);
  HarnessScope hs_;
  int k = index_of_fd(fd);
  if (k < 0 || k >= (int)G.fds.size() || !G.fds[k].open) {
    errno = EBADF;
    return nullptr;
  }
  if (strchr(mode, 'w') || strchr(mode, 'a') || strchr(mode, '+')) {
    // writing through stdio to an already open descriptor: no truncation happens here (that is open's business)
    OutStream *os = new OutStream();
    os->file = G.fds[k].file;
    os->at = G.fds[k].append ? (long)G.files[os->file].data.size() : (long)G.fds[k].pos;
    cookie_io_functions_t io = {nullptr, ck_out_write, nullptr, ck_out_close};
    FILE *f = fopencookie(os, "w", io);
    if (!f) {
      delete os;
      return nullptr;
    }
    G.ostreams[f] = os;
    G.fds[k].open = false;  // the stream owns the descriptor now
    return f;
  }
  if (G.fds[k].file < 0) {
    errno = EINVAL;
    return nullptr;
  }
  InStream *is = new InStream();
  is->data = G.files[G.fds[k].file].data;
  is->pos = G.fds[k].pos;
  is->is_dir = G.files[G.fds[k].file].kind == 2;
  is->file = G.fds[k].file;
  is->fd = fd;
  cookie_io_functions_t rio = {ck_file_read, nullptr, ck_file_seek, ck_file_close};
  FILE *rf = fopencookie(is, "r", rio);
  if (!rf) {
    delete is;
    return nullptr;
  }
  G.istreams.insert(rf);
  G.istream_cookie[rf] = is;
  return rf;
}
