// Plan generators, one profile per claimed property (DESIGN section 6).  Everything is drawn from
// one PRNG seeded by (VERIF_SEED, property, run index); the result is an explicit plan.
#include "corpus.h"
#include "libcall.h"
#include "model.h"
#include "plan.h"

#include <algorithm>
#include <ctype.h>
#include <errno.h>

namespace sim {

namespace {

struct GInst {  // what the generator believes about an instance (same model as the runner's)
  InstModel m;
  bool twin = false;
};

struct Gen {
  Rng r;
  Plan p;
  uint64_t uidc = 0;
  bool thorough = false;
  explicit Gen(uint64_t s) : r(s) {}
  Op mk(int kind, int slot) {
    Op o;
    o.kind = kind;
    o.slot = slot;
    o.uid = mix64(p.seed * 1000003ULL + (uint64_t)p.run, ++uidc) & 0x7fffffffffffULL;
    return o;
  }
};

const std::string &line_text(int idx) { return corpus_all()[idx].text; }

std::string pick_instr(Rng &r) {
  unsigned w = (unsigned)r.below(100);
  if (w < 45) return line_text(r.pick(corpus_instr()));
  if (w < 70) {
    for (int tries = 0; tries < 8; tries++) {
      int len = (int)r.range(1, 14);
      const std::vector<int> &v = corpus_by_len(len);
      if (!v.empty()) return line_text(r.pick(v));
    }
  }
  if (w < 82 && !corpus_optsens().empty()) return line_text(r.pick(corpus_optsens()));
  if (!corpus_safe().empty()) return line_text(r.pick(corpus_safe()));
  return line_text(r.pick(corpus_instr()));
}
std::string pick_filler(Rng &r) { return corpus_fillers().empty() ? std::string("") : line_text(r.pick(corpus_fillers())); }
std::string pick_reject(Rng &r) { return corpus_rejects().empty() ? std::string("bogus rax") : line_text(r.pick(corpus_rejects())); }

// another spelling of the same line: case, blanks, tabs, CR before the line end, a trailing comment.
// What the respelt line yields alone is established by the isolated-line oracle like for any other line.
std::string respell(Rng &r, const std::string &line) {
  if (line.empty() || line.find(';') != std::string::npos || line.find(':') != std::string::npos || line.size() > 60) return line;
  std::string s = line;
  unsigned w = (unsigned)r.below(8);
  if (w == 0) {
    for (char &c : s) c = (char)toupper((unsigned char)c);
  } else if (w == 1) {
    s = std::string((size_t)r.range(1, 6), ' ') + s;
  } else if (w == 2) {
    s = "\t" + s;
  } else if (w == 3) {
    std::string t;
    for (char c : s) {
      t.push_back(c);
      if (c == ',') t += "  ";
    }
    s = t;
  } else if (w == 4) {
    s += std::string((size_t)r.range(1, 4), ' ');
  } else if (w == 5) {
    s += "\r";  // CR LF line end
  } else if (w == 6) {
    s += " ; " + std::string(r.coin() ? "x1 <- x2" : "ret");
  } else {
    // capitalised mnemonic only
    s[0] = (char)toupper((unsigned char)s[0]);
  }
  return s;
}

// n instruction lines with fillers sprinkled in (1 in filler_den), optionally one rejected line
std::vector<std::string> gen_program(Rng &r, int n, unsigned filler_den, int reject_where /* -1 none, 0 first, 1 middle, 2 last */) {
  std::vector<std::string> v;
  const bool respelling = r.chance(1, 3);
  for (int i = 0; i < n; i++) {
    if (filler_den && r.chance(1, filler_den)) v.push_back(pick_filler(r));
    v.push_back(respelling && r.chance(1, 4) ? respell(r, pick_instr(r)) : pick_instr(r));
  }
  if (filler_den && r.chance(1, filler_den)) v.push_back(pick_filler(r));
  if (reject_where >= 0) {
    size_t pos = reject_where == 0 ? 0 : reject_where == 2 ? v.size() : v.size() / 2;
    v.insert(v.begin() + (long)pos, pick_reject(r));
  }
  return v;
}

int line_len(const std::string &l, int opts) {
  const Enc &e = enc(l, opts);
  return e.ok ? e.len : 0;
}
__attribute__((unused)) long prog_len(const std::vector<std::string> &v, int opts) {
  long s = 0;
  for (auto &l : v) s += line_len(l, opts);
  return s;
}

// exec-safe program: safe lines, at least one rax writer, `ret` last; total plain length steered to `target` when > 0
std::vector<std::string> gen_exec_program(Rng &r, int n, int opts, long target) {
  std::vector<std::string> v;
  long len = 0;
  const std::string ret = line_text(corpus_ret());
  auto add_safe = [&]() {
    bool rax = r.chance(1, 12);
    const std::string &l = line_text(rax ? r.pick(corpus_rax()) : r.pick(corpus_safe()));
    v.push_back(l);
    len += line_len(l, opts);
  };
  if (target > 0) {
    const long tail = 1 + 10;  // ret + one rax writer of up to 10 bytes
    while (len + tail + 14 < target) add_safe();
    // final approach with exact lengths
    const std::string &rx = line_text(r.pick(corpus_rax()));
    long need = target - 1 - line_len(rx, opts) - len;
    int guard = 0;
    while (need > 0 && guard++ < 40) {
      int want = (int)std::min<long>(need, 11);
      // nop lines exist for every length 1..11 and are exec-safe
      std::string nl = want == 1 ? "nop" : "nop" + std::to_string(want);
      if (!(corpus_flags(nl) & CF_SAFE)) break;
      v.push_back(nl);
      len += want;
      need -= want;
    }
    v.push_back(rx);
    v.push_back(ret);
    return v;
  }
  for (int i = 0; i < n; i++) add_safe();
  v.push_back(line_text(r.pick(corpus_rax())));
  if (r.chance(1, 3)) add_safe();
  v.push_back(ret);
  return v;
}

// split a program into successive assemble ops at line boundaries
void emit_split(Gen &g, Task &t, int slot, const std::vector<std::string> &prog, int cut_num, int cut_den, int kind = OP_ASM, long c = 0) {
  std::vector<std::string> cur;
  for (size_t i = 0; i < prog.size(); i++) {
    cur.push_back(prog[i]);
    bool last = i + 1 == prog.size();
    if (last || g.r.chance((unsigned)cut_num, (unsigned)cut_den)) {
      Op o = g.mk(kind, slot);
      o.lines = cur;
      o.c = c;
      o.final_nl = last ? g.r.coin() : true;
      o.alias = g.r.chance(1, 10);
      o.sep = g.r.chance(1, 12) ? 1 + (int)g.r.below(2) : 0;
      t.ops.push_back(o);
      cur.clear();
    }
  }
}

void emit_opts(Gen &g, Task &t, int slot, int mov, int swap, int nobase) {
  Op a = g.mk(OP_SETTER, slot);
  a.which = lib::S_MOV_IMM;
  a.value = mov;
  t.ops.push_back(a);
  Op b = g.mk(OP_SETTER, slot);
  b.which = lib::S_SWAP;
  b.value = swap;
  t.ops.push_back(b);
  Op c = g.mk(OP_SETTER, slot);
  c.which = lib::S_NOBASE;
  c.value = nobase;
  t.ops.push_back(c);
}

void random_order(Gen &g) {
  size_t total = g.p.n_ops();
  g.p.order.clear();
  if (g.p.tasks.size() <= 1) return;
  for (size_t i = 0; i < total; i++) g.p.order.push_back((int)g.r.below(g.p.tasks.size()));
}

// offsets and sizes with a bias towards numeric coincidences (powers of two, one off, the end of the range)
long interesting(Rng &r, long lo, long hi) {
  if (hi <= lo) return lo;
  unsigned w = (unsigned)r.below(10);
  if (w < 5) return r.range(lo, hi);
  if (w < 8) {
    static const long pts[] = {0, 1, 2, 3, 7, 8, 9, 15, 16, 17, 20, 31, 32, 33, 63, 64, 65, 100, 127, 128, 129, 255, 256, 257, 511, 512, 1000, 1023, 1024, 2048, 4095, 4096, 4097, 6000, 8192};
    for (int tries = 0; tries < 6; tries++) {
      long v = pts[r.below(sizeof pts / sizeof pts[0])];
      if (v >= lo && v <= hi) return v;
    }
    return r.range(lo, hi);
  }
  return std::max(lo, hi - r.range(0, 24));
}

int rand_fill(Rng &r) {
  static const int f[] = {0x00, 0xFF, 0xCC, -1};
  return f[r.below(4)];
}

Op mk_create(Gen &g, int slot, long n) {
  Op o = g.mk(OP_CREATE, slot);
  o.n = n;
  o.fill = rand_fill(g.r);
  o.guard = (int)g.r.below(2);
  if (n < 0 && g.r.chance(1, 4)) {
    // "buffer_len: irrelevant if buffer is NULL": any value may accompany a NULL buffer
    static const long lens[] = {1, 19, 4096, 6021, 70000, 1 << 20, -5};
    o.c = lens[g.r.below(7)];
  }
  return o;
}

// ---------------------------------------------------------------------------------------------------
// C06: concatenation, however the program is fed
void gen_c06(Gen &g) {
  Rng &r = g.r;
  Plan &p = g.p;
  p.world.mem_policy = (int)r.below(3);
  if (p.variant == "pairs") {
    // every ordered pair of a representative subset, under every option state
    std::vector<int> sub;
    for (int len = 1; len <= 14; len++) {
      const auto &v = corpus_by_len(len);
      if (!v.empty()) sub.push_back(v[0]);
      if (v.size() > 1) sub.push_back(v[v.size() / 2]);
    }
    for (int x : corpus_optsens())
      if (sub.size() < 40) sub.push_back(x);
    const auto &ins = corpus_instr();
    for (size_t i = 0; sub.size() < 60 && i < ins.size(); i += 5) sub.push_back(ins[i]);
    long M = (long)sub.size();
    long rr = p.run;
    int i = (int)(rr % M), j = (int)((rr / M) % M), o = (int)((rr / (M * M)) % 12);
    Task t;
    t.ops.push_back(mk_create(g, 0, 512));
    emit_opts(g, t, 0, o / 4, (o / 2) & 1, o & 1);
    Op so = g.mk(OP_OFFSET, 0);
    so.k = (long)r.below(64);
    t.ops.push_back(so);
    std::vector<std::string> prog = {line_text(sub[i]), line_text(sub[j]), line_text(sub[i])};
    emit_split(g, t, 0, prog, 1, 1);
    t.ops.push_back(mk_create(g, 1, 512));
    emit_opts(g, t, 1, o / 4, (o / 2) & 1, o & 1);
    Op so2 = g.mk(OP_OFFSET, 1);
    so2.k = so.k;
    t.ops.push_back(so2);
    emit_split(g, t, 1, prog, 0, 1);
    p.tasks.push_back(t);
    return;
  }
  if (r.chance(1, 40)) {
    // a long program (several growth quanta on a library-managed buffer), in one call or in a few pieces
    Task t;
    bool internal = r.chance(3, 4);
    int nl = (int)r.range(1300, g.thorough ? 6000 : 3200);
    std::vector<std::string> prog = gen_program(r, nl, r.coin() ? 10 : 0, -1);
    t.ops.push_back(mk_create(g, 0, internal ? -1 : 15L * nl + 4096));
    int o = r.coin() ? opt_index(2, 1, 1) : (int)r.below(12);
    if (o != opt_index(2, 1, 1)) emit_opts(g, t, 0, o / 4, (o / 2) & 1, o & 1);
    unsigned sp = (unsigned)r.below(3);
    emit_split(g, t, 0, prog, sp == 0 ? 0 : 1, sp == 1 ? (int)r.range(300, 2000) : 40);
    p.tasks.push_back(t);
    return;
  }
  int ntasks = 1 + (r.chance(1, 3) ? 1 : 0);
  for (int ti = 0; ti < ntasks; ti++) {
    Task t;
    int nl = (int)r.geom(1, 40, 9);
    bool internal = r.chance(1, 4);
    int mov = (int)r.below(3), swap = (int)r.below(2), nobase = (int)r.below(2);
    bool setopts = r.coin();
    if (!setopts) {
      mov = 2;
      swap = nobase = 1;
    }
    long k = internal ? 0 : r.chance(1, 2) ? 0 : r.chance(3, 4) ? interesting(r, 1, 300) : interesting(r, 301, 4200);
    long need = k + 15L * (nl + 2) + 64;
    long n = internal ? -1 : std::max<long>(need, r.chance(1, 2) ? 4096 : r.range(256, 8192));
    std::vector<std::string> prog = gen_program(r, nl, r.chance(1, 2) ? 6 : 0, -1);
    // programs repeat lines: the same line twice in a row, and the first line again at the end
    if (r.chance(1, 4) && !prog.empty()) {
      size_t at = r.below(prog.size());
      prog.insert(prog.begin() + (long)at, (size_t)r.range(1, 2), prog[at]);
    }
    if (r.chance(1, 4) && !prog.empty()) prog.push_back(prog[0]);
    t.ops.push_back(mk_create(g, 0, n));
    if (setopts) emit_opts(g, t, 0, mov, swap, nobase);
    if (k || r.coin()) {
      Op so = g.mk(OP_OFFSET, 0);
      so.k = k;
      t.ops.push_back(so);
    }
    int style = (int)r.below(4);
    size_t first_piece = t.ops.size();
    emit_split(g, t, 0, prog, style == 0 ? 0 : style == 1 ? 1 : 1, style == 1 ? 1 : 3);
    if (r.chance(1, 8))  // some pieces arrive through the counting entry point (same bytes as plain assembly)
      for (size_t q = first_piece; q < t.ops.size(); q++)
        if (t.ops[q].kind == OP_ASM && r.coin()) {
          t.ops[q].kind = OP_COUNT;
          t.ops[q].c = r.chance(1, 6) ? r.range(-1, 1) : r.range(2, 40);
        }
    if (r.chance(1, 3)) {
      // repetition on the same instance: the caller may have overwritten its buffer and changed options meanwhile
      if (!internal && r.chance(2, 3)) {
        Op rf = g.mk(OP_REFILL, 0);
        rf.fill = rand_fill(r);
        t.ops.push_back(rf);
      }
      if (r.chance(1, 3)) emit_opts(g, t, 0, (int)r.below(3), (int)r.below(2), (int)r.below(2));
      Op so2 = g.mk(OP_OFFSET, 0);
      so2.k = k;
      t.ops.push_back(so2);
      int st2 = (int)r.below(3);
      emit_split(g, t, 0, prog, st2 == 0 ? 0 : 1, st2 == 1 ? 1 : 3);
    }
    if (r.coin()) {
      // the same program on a second instance with other initial contents, in one call
      t.ops.push_back(mk_create(g, 1, internal ? std::max<long>(need, 4096) : n));
      if (setopts) emit_opts(g, t, 1, mov, swap, nobase);
      Op so = g.mk(OP_OFFSET, 1);
      so.k = k;
      t.ops.push_back(so);
      emit_split(g, t, 1, prog, 0, 1);
    }
    if (r.coin()) t.ops.push_back(g.mk(OP_DESTROY, 0));
    p.tasks.push_back(t);
  }
  random_order(g);
}

// ---------------------------------------------------------------------------------------------------
// generic history generator on small caller buffers (C07, C13, C15 share it with different mixes)
struct HistCfg {
  int w_asm = 45, w_count = 8, w_chunk = 10, w_offset = 15, w_setter = 8, w_debug = 3, w_other_inst = 4, w_exec = 0;
  bool opts_at_create = false;  // choose the option state once, right after creation, with the three canonical setters
                                // (exactly what the isolated-line oracle does, so a tree whose setters compose wrongly
                                //  cannot desynchronise the model in a check that is not about setters)
  int w_file = 0;    // the file entry points (text taken from a simulated file)
  int w_repeat = 0;  // the same text again at the same offset as an earlier call (after whatever happened in between)
  int max_ops = 30;
  long n_lo = 0, n_hi = 80;
  bool allow_internal = false;
  int fit_bias = 0;       // % of runs that switch fitting on right away
  long c_dense_hi = 64;   // chunk sizes 2..c_dense_hi dense
  long c_sparse_hi = 64;  // else up to this
  bool fresh_twin = false;
  int p_after_fail_reset = 50;  // % of failed calls followed by an explicit set_offset
  bool count_on_fit = false;    // allow counting calls while fitting is on (what they emit is left open: containment only;
                                // the chunk setting survives them like any other call)
  int reject_pct = 15;
};

long pick_chunk(Rng &r, const HistCfg &c, long last = 0) {
  if (last >= 2 && r.chance(1, 4)) return last;  // the same size again, e.g. after fitting was switched off
  if (r.chance(1, 40)) {
    // the parameter is a size_t: sizes beyond 32 bits are sizes like any other (no boundary is ever reached)
    static const long big[] = {1L << 31, (1L << 31) + 8, 1L << 32, (1L << 32) + 1, 1L << 40};
    return r.coin() ? (1L << 32) + r.range(2, 64) : big[r.below(5)];
  }
  unsigned w = (unsigned)r.below(100);
  if (w < 8) return (long)r.range(-1, 1);  // switches fitting off
  if (w < 75 || c.c_sparse_hi <= c.c_dense_hi) return r.range(2, c.c_dense_hi);
  return r.range(c.c_dense_hi + 1, c.c_sparse_hi);
}

void gen_history_task(Gen &g, Task &t, const HistCfg &cfg) {
  Rng &r = g.r;
  GInst gi[2];
  long last_c[2] = {0, 0};
  auto create = [&](int slot) {
    bool internal = cfg.allow_internal && r.chance(1, 5);
    long n = internal ? -1 : interesting(r, cfg.n_lo, cfg.n_hi);
    t.ops.push_back(mk_create(g, slot, n));
    gi[slot].m.reset_created(!internal, internal ? 0 : n);
    if (cfg.opts_at_create && r.coin()) {
      int o = (int)r.below(12);
      emit_opts(g, t, slot, o / 4, (o / 2) & 1, o & 1);
      gi[slot].m.mov = o / 4;
      gi[slot].m.swap = (o / 2) & 1;
      gi[slot].m.nobase = o & 1;
    }
  };
  create(0);
  if (cfg.fit_bias && (int)r.below(100) < cfg.fit_bias) {
    Op o = g.mk(OP_CHUNK, 0);
    o.c = pick_chunk(r, cfg);
    if (o.c >= 2) last_c[0] = o.c;
    t.ops.push_back(o);
    gi[0].m.apply_chunk(o.c);
    Op so = g.mk(OP_OFFSET, 0);
    long lim = gi[0].m.external ? gi[0].m.cap : 0;
    so.k = std::min<long>(lim, r.range(0, 2 * std::max<long>(o.c, 1)));
    t.ops.push_back(so);
    gi[0].m.offset = so.k;
  }
  int nops = (int)r.geom(3, cfg.max_ops, 10);
  if (r.chance(1, 60)) nops = (int)r.range(70, 140);  // a long life: many calls on the same instance
  int total = cfg.w_asm + cfg.w_count + cfg.w_chunk + cfg.w_offset + cfg.w_setter + cfg.w_debug + cfg.w_other_inst + cfg.w_exec + cfg.w_repeat + cfg.w_file;
  std::vector<std::string> last_prog[2];
  long last_start[2] = {-1, -1};
  for (int i = 0; i < nops; i++) {
    int slot = (gi[1].m.live && r.chance(1, 3)) ? 1 : 0;
    InstModel &m = gi[slot].m;
    if (!m.live) {
      create(slot);
      last_start[slot] = -1;
      continue;
    }
    int w = (int)r.below((uint64_t)total);
    if ((w -= cfg.w_file) < 0) {
      bool counting = r.chance(1, 3);
      if (counting && (m.chunk > 0 || m.chunk_unknown) && !cfg.count_on_fit) continue;
      FileSpec f;
      f.path = "/sim/h" + std::to_string(g.p.world.files.size()) + ".asm";
      std::vector<std::string> prog = gen_program(r, (int)r.range(1, 8), r.chance(1, 3) ? 4 : 0, ((int)r.below(100) < cfg.reject_pct) ? (int)r.below(3) : -1);
      bool fin = r.coin();
      for (size_t q = 0; q < prog.size(); q++) {
        f.data += prog[q];
        if (q + 1 < prog.size() || fin) f.data.push_back('\n');
      }
      g.p.world.files.push_back(f);
      Op o = g.mk(counting ? OP_COUNT_FILE : OP_ASM_FILE, slot);
      o.path = f.path;
      o.c = r.chance(1, 8) ? r.range(-2, 1) : r.range(2, 48);
      t.ops.push_back(o);
      std::vector<std::string> lines = split_lines(f.data);
      if (m.offset_unspec || m.chunk_unknown || (counting && m.chunk > 0)) {
        m.offset_unspec = true;
      } else {
        long end = 0;
        int mode = counting ? M_COUNT : (m.chunk > 0 ? M_FIT : M_PLAIN);
        int fr = walk_expect(m, lines, mode, counting ? o.c : m.chunk, m.offset, &end, nullptr, nullptr);
        if (fr == FR_NONE) {
          m.offset = end;
          m.hi = std::max(m.hi, end);
        } else
          m.offset_unspec = true;
      }
      m.offset_explicit = false;
      continue;
    }
    if ((w -= cfg.w_repeat) < 0) {
      if (last_start[slot] < 0 || last_prog[slot].empty()) continue;
      Op so = g.mk(OP_OFFSET, slot);
      so.k = last_start[slot];
      t.ops.push_back(so);
      m.offset = so.k;
      m.offset_unspec = false;
      Op o = g.mk(OP_ASM, slot);
      o.lines = last_prog[slot];
      o.fresh_twin = cfg.fresh_twin && !m.chunk_unknown;
      t.ops.push_back(o);
      if (m.chunk_unknown)
        m.offset_unspec = true;
      else {
        long end = 0;
        int fr = walk_expect(m, o.lines, m.chunk > 0 ? M_FIT : M_PLAIN, m.chunk, m.offset, &end, nullptr, nullptr);
        if (fr == FR_NONE) {
          m.offset = end;
          m.hi = std::max(m.hi, end);
        } else
          m.offset_unspec = true;
      }
      m.offset_explicit = false;
      continue;
    }
    if ((w -= cfg.w_asm) < 0 || false) {
      // assemble
      long room = m.external ? m.cap - (m.offset_unspec ? 0 : m.offset) : 4000;
      int style = (int)r.below(10);
      std::vector<std::string> prog;
      int rej = ((int)r.below(100) < cfg.reject_pct) ? (int)r.below(3) : -1;
      if (r.chance(1, 14)) {
        // a text without any instruction (empty, or comments / labels / directives only): nothing may be written,
        // wherever the offset stands - also at the very end of the buffer or on a buffer of length 0
        for (int q = (int)r.below(4); q > 0; q--) prog.push_back(pick_filler(r));
      } else if (style < 4) {
        prog = gen_program(r, (int)r.range(1, 6), r.chance(1, 3) ? 4 : 0, rej);
      } else if (style < 8) {
        // steer the end of the program towards the reserve boundary
        long target = room - 20 + r.range(-6, 6);
        long len = 0;
        int guard = 0;
        while (guard++ < 200) {
          std::string l = pick_instr(r);
          int ll = line_len(l, m.opts());
          if (len + ll > target && !prog.empty()) break;
          prog.push_back(l);
          len += ll;
          if (len >= target) break;
        }
        if (prog.empty()) prog.push_back(pick_instr(r));
        if (rej >= 0 && r.chance(1, 3)) prog.insert(prog.begin() + (long)r.below(prog.size() + 1), pick_reject(r));
      } else if (!m.external && cfg.fresh_twin && r.chance(1, 3)) {
        // a long program on a library-managed buffer: the instance outgrows what a new instance starts with
        prog = gen_program(r, (int)r.range(1300, 2600), 0, -1);
      } else {
        // deliberately too long
        prog = gen_program(r, (int)std::min<long>(60, room / 3 + 3), 0, -1);
      }
      Op o = g.mk(OP_ASM, slot);
      o.lines = prog;
      o.final_nl = r.coin();
      o.alias = r.chance(1, 12);
      o.sep = r.chance(1, 12) ? 1 + (int)r.below(2) : 0;
      bool explicit_off = m.offset_explicit;
      o.fresh_twin = cfg.fresh_twin && explicit_off && !m.chunk_unknown;
      t.ops.push_back(o);
      if (m.offset_unspec || m.chunk_unknown) {
        m.offset_unspec = true;
      } else {
        long end = 0;
        int fr = walk_expect(m, prog, m.chunk > 0 ? M_FIT : M_PLAIN, m.chunk, m.offset, &end, nullptr, nullptr);
        if (fr == FR_NONE) {
          last_prog[slot] = prog;
          last_start[slot] = m.offset;
          m.offset = end;
          m.hi = std::max(m.hi, end);
        } else
          m.offset_unspec = true;
      }
      m.offset_explicit = false;
      if (m.offset_unspec && (int)r.below(100) < cfg.p_after_fail_reset) {
        Op so = g.mk(OP_OFFSET, slot);
        long lim = m.external ? m.cap : m.hi;
        so.k = r.chance(1, 3) ? 0 : r.range(0, lim);
        t.ops.push_back(so);
        m.offset = so.k;
        m.offset_unspec = false;
        m.offset_explicit = true;
      }
      continue;
    }
    if ((w -= cfg.w_count) < 0) {
      if ((m.chunk > 0 || m.chunk_unknown) && !cfg.count_on_fit) {
        continue;
      }
      Op o = g.mk(OP_COUNT, slot);
      o.lines = gen_program(r, (int)r.range(1, 8), r.chance(1, 3) ? 4 : 0, ((int)r.below(100) < cfg.reject_pct) ? (int)r.below(3) : -1);
      unsigned cw = (unsigned)r.below(10);
      o.c = cw == 0 ? r.range(-3, 1) : cw < 8 ? r.range(2, 48) : r.range(49, 100000);
      o.alias = r.chance(1, 12);
      o.fresh_twin = cfg.fresh_twin && m.offset_explicit && m.chunk == 0 && !m.chunk_unknown;
      t.ops.push_back(o);
      if (m.chunk > 0 || m.chunk_unknown) {
        m.offset_unspec = true;  // what such a call emits is left open; the instance's chunk setting is not touched by it
      } else if (!m.offset_unspec) {
        long end = 0;
        int fr = walk_expect(m, o.lines, M_COUNT, o.c, m.offset, &end, nullptr, nullptr);
        if (fr == FR_NONE) {
          m.offset = end;
          m.hi = std::max(m.hi, end);
        } else
          m.offset_unspec = true;
      }
      m.offset_explicit = false;
      continue;
    }
    if ((w -= cfg.w_chunk) < 0) {
      Op o = g.mk(OP_CHUNK, slot);
      o.c = pick_chunk(r, cfg, last_c[slot]);
      if (o.c >= 2) last_c[slot] = o.c;
      t.ops.push_back(o);
      m.apply_chunk(o.c);
      continue;
    }
    if ((w -= cfg.w_offset) < 0) {
      Op o = g.mk(OP_OFFSET, slot);
      long lim = m.external ? m.cap : m.hi;
      o.k = r.chance(1, 4) ? 0 : interesting(r, 0, lim);
      t.ops.push_back(o);
      m.offset = o.k;
      m.offset_unspec = false;
      m.offset_explicit = true;
      continue;
    }
    if ((w -= cfg.w_setter) < 0) {
      Op o = g.mk(OP_SETTER, slot);
      o.which = (int)r.below(5);
      static const int vals[] = {0, 1, 2, 0, 1, 2, 3, 77, -1};
      o.value = vals[r.below(9)];
      t.ops.push_back(o);
      m.apply_setter(o.which, o.value);
      continue;
    }
    if ((w -= cfg.w_debug) < 0) {
      Op o = g.mk(OP_DEBUG, slot);
      o.on = r.coin();
      t.ops.push_back(o);
      continue;
    }
    if ((w -= cfg.w_other_inst) < 0) {
      // another instance is created or destroyed meanwhile
      if (!gi[1].m.live)
        create(1);
      else {
        t.ops.push_back(g.mk(OP_DESTROY, 1));
        gi[1].m.live = false;
      }
      continue;
    }
    {
      t.ops.push_back(g.mk(OP_EXEC, slot));
      continue;
    }
  }
  if (r.coin()) t.ops.push_back(g.mk(OP_DESTROY, 0));
}

void gen_c07(Gen &g) {
  Rng &r = g.r;
  HistCfg cfg;
  cfg.count_on_fit = true;
  cfg.w_setter = 0;
  cfg.opts_at_create = true;
  cfg.w_file = 6;
  cfg.p_after_fail_reset = 40;
  int ntasks = 1 + (r.chance(1, 4) ? 1 : 0);
  for (int i = 0; i < ntasks; i++) {
    if (r.coin()) {
      cfg.n_lo = 0;
      cfg.n_hi = 80;
    } else {
      cfg.n_lo = 81;
      cfg.n_hi = 400;
    }
    if (r.chance(1, 10)) {
      // caller buffers that end at or just behind a page multiple of their own length (the library's own mappings are
      // page-granular, a caller's buffer is not): n = 4096 q - 25 .. 4096 q + 40, offsets mostly in the last bytes
      long q = r.range(1, 3);
      cfg.n_lo = 4096 * q - 25;
      cfg.n_hi = 4096 * q + 40;
    }
    Task t;
    gen_history_task(g, t, cfg);
    g.p.tasks.push_back(t);
  }
  random_order(g);
}

// ---------------------------------------------------------------------------------------------------
// C13: chunk fitting
// enumerates the (chunk size c, position mod c, instruction length L) space: run index -> triple
bool triple_of_run(long run, long *c, long *pos, long *L) {
  long idx = run;
  for (long cc = 2; cc <= 48; cc++) {
    long n = cc * 14;
    if (idx < n) {
      *c = cc;
      *pos = idx / 14;
      *L = idx % 14 + 1;
      return true;
    }
    idx -= n;
  }
  return false;
}
const long TRIPLES_TOTAL = 14 * (48 * 49 / 2 - 1);  // sum over c = 2..48 of 14 c

void gen_triple(Gen &g, bool counting) {
  Rng &r = g.r;
  Plan &p = g.p;
  long c = 2, pos = 0, L = 1;
  triple_of_run(p.run % TRIPLES_TOTAL, &c, &pos, &L);
  Task t;
  t.ops.push_back(mk_create(g, 0, r.chance(1, 8) ? -1 : 1024));
  if (r.chance(1, 4)) {
    int o = (int)r.below(12);
    emit_opts(g, t, 0, o / 4, (o / 2) & 1, o & 1);
  }
  if (!counting) {
    Op ch = g.mk(OP_CHUNK, 0);
    ch.c = c;
    t.ops.push_back(ch);
  }
  // reach an absolute position congruent to pos by nop lines that never cross a boundary themselves
  long want = pos + c * r.range(0, 3), at = 0;
  std::vector<std::string> pre;
  while (at < want) {
    long step = std::min<long>(std::min<long>(want - at, 11), c - at % c);
    pre.push_back(step == 1 ? "nop" : "nop" + std::to_string(step));
    at += step;
  }
  if (!pre.empty()) {
    Op a = g.mk(OP_ASM, 0);
    a.lines = pre;
    t.ops.push_back(a);
  }
  const auto &cand = corpus_by_len((int)L);
  Op b = g.mk(counting ? OP_COUNT : OP_ASM, 0);
  b.c = c;
  b.lines.push_back(cand.empty() ? pick_instr(r) : line_text(r.pick(cand)));
  for (int i = 0, e = (int)r.below(3); i < e; i++) b.lines.push_back(pick_instr(r));
  t.ops.push_back(b);
  p.tasks.push_back(t);
}

void gen_c13(Gen &g) {
  Rng &r = g.r;
  Plan &p = g.p;
  p.world.mem_policy = (int)r.below(3);
  if (p.variant == "triples") {
    gen_triple(g, false);
    return;
  }
  Task t;
  unsigned style = (unsigned)r.below(8);
  if (style == 0) {
    // directed: a gap of 12..14 bytes in front of a 13/14-byte instruction, and other (c, p mod c, L) corners
    long gap = r.range(9, 14);
    long L = std::min<long>(14, gap + r.range(1, 2));
    const auto &cand = corpus_by_len((int)L);
    long c = r.range(std::max<long>(L + 1, gap + 1), 48);
    t.ops.push_back(mk_create(g, 0, r.chance(1, 6) ? -1 : r.range(200, 1024)));
    Op ch = g.mk(OP_CHUNK, 0);
    ch.c = c;
    t.ops.push_back(ch);
    // reach position p with p mod c == c - gap by plain nop lines
    std::vector<std::string> pre;
    long pos = 0, want = c - gap + c * r.range(0, 2);
    while (pos < want) {
      long step = std::min<long>(want - pos, std::min<long>(11, c - pos % c));
      pre.push_back(step == 1 ? "nop" : "nop" + std::to_string(step));
      pos += step;
    }
    if (!pre.empty()) {
      Op a = g.mk(OP_ASM, 0);
      a.lines = pre;
      t.ops.push_back(a);
    }
    Op b = g.mk(OP_ASM, 0);
    b.lines.push_back(cand.empty() ? pick_instr(r) : line_text(r.pick(cand)));
    for (int i = 0, e = (int)r.below(4); i < e; i++) b.lines.push_back(pick_instr(r));
    t.ops.push_back(b);
    p.tasks.push_back(t);
    return;
  }
  if (r.chance(1, 150)) {
    // a chunk size beyond 16 bits and enough code to reach and pass its first boundaries
    long c = r.coin() ? r.range(65537, 70000) : r.range(70001, 180000);
    t.ops.push_back(mk_create(g, 0, r.coin() ? -1 : 2 * c + 4000));
    Op ch = g.mk(OP_CHUNK, 0);
    ch.c = c;
    t.ops.push_back(ch);
    p.world.step_budget = 2000000000L;
    long lines_left = (c + r.range(100, c)) / 5;
    while (lines_left > 0) {
      Op b = g.mk(OP_ASM, 0);
      long n = std::min<long>(lines_left, r.range(2000, 9000));
      b.lines = gen_program(r, (int)n, 0, -1);
      lines_left -= n;
      t.ops.push_back(b);
    }
    p.tasks.push_back(t);
    return;
  }
  HistCfg cfg;
  cfg.w_asm = 55;
  cfg.w_count = 7;
  cfg.w_chunk = 14;
  cfg.w_offset = 14;
  cfg.w_setter = 0;
  cfg.opts_at_create = true;
  cfg.w_debug = 3;
  cfg.w_other_inst = 2;
  cfg.w_exec = 0;
  cfg.max_ops = 24;
  cfg.fit_bias = 92;
  cfg.count_on_fit = true;  // fitting must still be on, with the same size, after a counting call
  cfg.reject_pct = 5;
  cfg.allow_internal = true;
  cfg.p_after_fail_reset = 90;
  if (style <= 2) {
    cfg.n_lo = 60;
    cfg.n_hi = 400;  // buffers that run out in the middle of a pad-then-emit step
    cfg.c_dense_hi = 48;
    cfg.c_sparse_hi = 48;
  } else if (style <= 5) {
    cfg.n_lo = 1024;
    cfg.n_hi = 4096;
    cfg.c_dense_hi = 48;
    cfg.c_sparse_hi = 48;
  } else {
    cfg.n_lo = 12000;
    cfg.n_hi = 20000;
    cfg.c_dense_hi = 48;
    cfg.c_sparse_hi = 9000;  // also beyond the capacity of a new library-managed buffer
  }
  gen_history_task(g, t, cfg);
  p.tasks.push_back(t);
}

// ---------------------------------------------------------------------------------------------------
// C14: chunk counting
void gen_c14(Gen &g) {
  Rng &r = g.r;
  Plan &p = g.p;
  p.world.mem_policy = (int)r.below(3);
  if (p.variant == "triples") {
    gen_triple(g, true);
    return;
  }
  Task t;
  bool internal = r.chance(1, 4);
  long n = internal ? -1 : r.range(300, 4096);
  t.ops.push_back(mk_create(g, 0, n));
  GInst gi;
  gi.m.reset_created(!internal, internal ? 0 : n);
  if (r.chance(1, 3)) {
    int o = (int)r.below(12);
    emit_opts(g, t, 0, o / 4, (o / 2) & 1, o & 1);
    gi.m.mov = o / 4;
    gi.m.swap = (o / 2) & 1;
    gi.m.nobase = o & 1;
  }
  if (r.chance(1, 5)) {
    // the instance had chunk fitting on earlier and has it off now ("on an instance without chunk fitting enabled"):
    // whatever size was stored then is not the boundary to count against
    Op on = g.mk(OP_CHUNK, 0);
    on.c = r.range(2, 48);
    t.ops.push_back(on);
    if (r.coin()) {
      Op a = g.mk(OP_ASM, 0);
      a.lines = gen_program(r, (int)r.range(1, 5), 0, -1);
      t.ops.push_back(a);
      long end = 0;
      if (walk_expect(gi.m, a.lines, M_FIT, on.c, gi.m.offset, &end, nullptr, nullptr) == FR_NONE) {
        gi.m.offset = end;
        gi.m.hi = std::max(gi.m.hi, end);
      } else
        gi.m.offset_unspec = true;
    }
    Op off = g.mk(OP_CHUNK, 0);
    off.c = r.range(-1, 1);
    t.ops.push_back(off);
  }
  // a file for the file entry point
  int nfiles = 0;
  int ncalls = (int)r.geom(1, 10, 4);
  for (int i = 0; i < ncalls; i++) {
    InstModel &m = gi.m;
    if (m.offset_unspec || r.chance(1, 3)) {
      Op so = g.mk(OP_OFFSET, 0);
      long lim = m.external ? std::max<long>(0, m.cap - 200) : m.hi;
      so.k = r.chance(1, 3) ? 0 : r.range(0, std::min<long>(lim, 200));
      t.ops.push_back(so);
      m.offset = so.k;
      m.offset_unspec = false;
    }
    unsigned kind = (unsigned)r.below(10);
    std::vector<std::string> prog;
    int nl = (int)r.geom(1, 30, 8);
    if (internal && r.chance(1, 6)) nl = (int)r.range(1300, 1700);  // growth during a counting call
    for (int k = 0; k < nl; k++) {
      if (r.chance(1, 8)) prog.push_back(pick_filler(r));
      prog.push_back(pick_instr(r));
    }
    if (r.chance(1, 12)) prog.insert(prog.begin() + (long)r.below(prog.size() + 1), pick_reject(r));
    if (!internal && !m.offset_unspec && r.chance(1, 6)) {
      // a program that ends within the last bytes of the caller buffer: counting must succeed or fail exactly where
      // plain assembly does (the 20-byte rule is applied before an instruction, never after the last one)
      long target = m.cap - 20 - m.offset + r.range(-4, 14);
      long len = 0;
      prog.clear();
      for (int guard = 0; guard < 400 && len < target; guard++) {
        std::string l = pick_instr(r);
        int ll = line_len(l, m.opts());
        if (ll <= 0 || len + ll > target + 2) continue;
        prog.push_back(l);
        len += ll;
      }
      if (prog.empty()) prog.push_back(pick_instr(r));
    }
    if (internal && kind >= 4 && r.chance(1, 120)) {
      // more crossings in one call than 16 bits can count
      prog.clear();
      static const char *three[] = {"mov rcx, rdx", "add rcx, rdx", "xor rdx, rdx", "mov r8, r9"};
      long n3 = r.range(65600, 70000);
      for (long q = 0; q < n3; q++) prog.push_back(three[q & 3]);
      p.world.step_budget = 2000000000L;
    }
    if (kind < 2) {
      Op a = g.mk(OP_ASM, 0);
      a.lines = prog;
      t.ops.push_back(a);
      long end = 0;
      if (walk_expect(m, prog, M_PLAIN, 0, m.offset, &end, nullptr, nullptr) == FR_NONE) {
        m.offset = end;
        m.hi = std::max(m.hi, end);
      } else
        m.offset_unspec = true;
      continue;
    }
    unsigned cw = (unsigned)r.below(12);
    long c = cw == 0 ? r.range(-3, 1) : cw < 9 ? r.range(2, 48) : cw < 11 ? r.range(49, 4096) : 1000000;
    if (nl > 1000 && r.coin()) c = r.range(5000, 9000);  // a boundary near the capacity of a new library-managed buffer
    if (prog.size() > 60000) c = r.range(2, 3);
    if (kind < 4) {
      FileSpec f;
      f.path = "/sim/count" + std::to_string(nfiles++) + ".asm";
      bool fin = r.coin();
      for (size_t k = 0; k < prog.size(); k++) {
        f.data += prog[k];
        if (k + 1 < prog.size() || fin) f.data.push_back('\n');
      }
      if (f.data.empty() || f.data.size() % 4096 == 0) f.data += "nop\n";
      p.world.files.push_back(f);
      Op a = g.mk(OP_COUNT_FILE, 0);
      a.path = f.path;
      a.c = c;
      t.ops.push_back(a);
      prog = split_lines(f.data);
    } else {
      Op a = g.mk(OP_COUNT, 0);
      a.lines = prog;
      a.c = c;
      a.final_nl = r.coin();
      a.alias = r.chance(1, 10);
      t.ops.push_back(a);
    }
    long end = 0;
    if (walk_expect(m, prog, M_COUNT, c, m.offset, &end, nullptr, nullptr) == FR_NONE) {
      m.offset = end;
      m.hi = std::max(m.hi, end);
    } else
      m.offset_unspec = true;
  }
  p.tasks.push_back(t);
}

// ---------------------------------------------------------------------------------------------------
// C15: history independence
// bounded-exhaustive histories: every sequence of three operations from a small alphabet, followed by
// set_offset + a final assemble that is repeated on a fresh instance (run index -> history)
void gen_c15_enum(Gen &g) {
  Rng &r = g.r;
  Plan &p = g.p;
  const int A = 24;
  long idx = p.run % ((long)A * A * A);
  int sel[3] = {(int)(idx % A), (int)((idx / A) % A), (int)(idx / ((long)A * A))};
  Task t;
  bool internal = (p.run / ((long)A * A * A)) % 3 == 2;
  long n = internal ? -1 : 300;
  t.ops.push_back(mk_create(g, 0, n));
  InstModel m;
  m.reset_created(!internal, internal ? 0 : n);
  bool other_live = false;
  for (int i = 0; i < 3; i++) {
    int a = sel[i];
    if (a < 10) {  // setters
      static const int W[10] = {0, 0, 0, 1, 1, 2, 3, 4, 4, 4}, Vv[10] = {0, 1, 2, 0, 1, 0, 0, 0, 2, 77};
      Op o = g.mk(OP_SETTER, 0);
      o.which = W[a];
      o.value = Vv[a];
      t.ops.push_back(o);
      m.apply_setter(o.which, o.value);
    } else if (a < 13) {  // fitting on (two sizes) / off
      Op o = g.mk(OP_CHUNK, 0);
      o.c = a == 10 ? 8 : a == 11 ? 21 : 0;
      t.ops.push_back(o);
      m.apply_chunk(o.c);
    } else if (a < 17) {  // assemble: ok / rejected line first / rejected line last / too long for the buffer
      Op o = g.mk(OP_ASM, 0);
      if (a == 16 && !internal)
        o.lines = gen_program(r, 70, 0, -1);
      else
        o.lines = gen_program(r, (int)r.range(1, 5), 0, a == 13 ? -1 : a == 14 ? 0 : 2);
      t.ops.push_back(o);
    } else if (a < 20) {  // counting: ok (c>=2) / failing / c<2
      Op o = g.mk(OP_COUNT, 0);
      o.c = a == 19 ? 1 : r.range(2, 24);
      o.lines = gen_program(r, (int)r.range(1, 5), 0, a == 18 ? 1 : -1);
      t.ops.push_back(o);
    } else if (a == 20 || a == 21) {
      Op o = g.mk(OP_DEBUG, 0);
      o.on = a == 20;
      t.ops.push_back(o);
    } else if (a == 22) {  // another instance appears / disappears
      if (!other_live)
        t.ops.push_back(mk_create(g, 1, 100));
      else
        t.ops.push_back(g.mk(OP_DESTROY, 1));
      other_live = !other_live;
    } else {
      Op o = g.mk(OP_OFFSET, 0);
      o.k = 0;
      t.ops.push_back(o);
    }
  }
  Op so = g.mk(OP_OFFSET, 0);
  so.k = internal ? 0 : (long)r.below(3) * 7;
  t.ops.push_back(so);
  Op fin = g.mk(r.chance(1, 5) && m.chunk == 0 ? OP_COUNT : OP_ASM, 0);
  fin.c = r.range(2, 24);
  fin.lines = gen_program(r, (int)r.range(1, 8), r.coin() ? 4 : 0, r.chance(1, 8) ? 1 : -1);
  fin.fresh_twin = true;
  t.ops.push_back(fin);
  p.tasks.push_back(t);
}

void gen_c15(Gen &g) {
  Rng &r = g.r;
  if (g.p.variant == "enum") {
    gen_c15_enum(g);
    return;
  }
  HistCfg cfg;
  cfg.w_asm = 40;
  cfg.w_count = 10;
  cfg.w_chunk = 8;
  cfg.w_offset = 20;
  cfg.w_setter = 10;
  cfg.w_debug = 3;
  cfg.w_other_inst = 6;
  cfg.fresh_twin = true;
  cfg.count_on_fit = true;
  cfg.w_repeat = 12;
  cfg.allow_internal = true;
  cfg.n_lo = 64;
  cfg.n_hi = 600;
  cfg.c_dense_hi = 32;
  cfg.c_sparse_hi = 200;
  cfg.reject_pct = 20;
  cfg.p_after_fail_reset = 85;
  cfg.max_ops = 30;
  g.p.world.mem_policy = (int)r.below(3);
  int ntasks = 1 + (int)r.below(3) / 2 + (r.chance(1, 6) ? 1 : 0);
  for (int i = 0; i < ntasks; i++) {
    Task t;
    gen_history_task(g, t, cfg);
    g.p.tasks.push_back(t);
  }
  random_order(g);
}

// ---------------------------------------------------------------------------------------------------
// C12: option setters on several live instances
void gen_c12(Gen &g) {
  Rng &r = g.r;
  Plan &p = g.p;
  p.probe = true;
  int ntasks = 1 + (int)r.below(3);
  // now and then a crowd: more instances alive at once than any small table of handles would hold
  const bool crowd = r.chance(1, 40);
  if (crowd) ntasks = 6;
  // documented values, and integers outside the enum: small, powers of two and their neighbours, extremes
  static const int vals[] = {0, 1, 2, 0, 1, 2, 0, 1, 2, 3, 77, -1, 3, 77, -1, 4, 5, 8, 16, 31, 32, 33, 64, 65, 96, 128, 129, 255, 256, 257, 512, 1024, 65536, 65537, 0x7fffffff, -2, (int)0x80000000};
  const size_t nvals = sizeof vals / sizeof vals[0];
  for (int ti = 0; ti < ntasks; ti++) {
    Task t;
    bool live[2] = {false, false};
    int nops = (int)r.geom(2, 24, 8);
    // caller buffers and library-managed buffers alike; instances come and go, so a new instance may
    // well be built from whatever an earlier one left behind
    bool internal[2] = {false, false};
    auto new_inst = [&](int slot) {
      internal[slot] = r.chance(1, 3);
      t.ops.push_back(mk_create(g, slot, internal[slot] ? -1 : 128));
    };
    new_inst(0);
    live[0] = true;
    if (crowd) {
      // (slots 2 and 3 are created and then left alone: they only have to be alive)
      new_inst(1);
      live[1] = true;
      t.ops.push_back(mk_create(g, 2, 128));
      t.ops.push_back(mk_create(g, 3, 128));
      nops = std::min(nops, 6);
    }
    for (int i = 0; i < nops; i++) {
      int slot = (int)r.below(2);
      unsigned w = (unsigned)r.below(20);
      if (!live[slot]) {
        new_inst(slot);
        live[slot] = true;
        continue;
      }
      if (w <= 1) {
        t.ops.push_back(g.mk(OP_DESTROY, slot));
        live[slot] = false;
        continue;
      }
      if (w == 2) {
        // a call that fails: the setters that follow act on an instance in its error state (the probe after each
        // setter restarts it with asm_set_offset(0))
        Op a = g.mk(OP_ASM, slot);
        a.lines = gen_program(r, (int)r.range(0, 3), 0, (int)r.below(3));
        t.ops.push_back(a);
        continue;
      }
      if (w == 5 && r.chance(1, 2)) {
        // the chunk size is no option: a call that switches fitting off leaves the three dimensions alone
        // (only sizes below 2 here: the probe reads plain code, and any live instance may be probed at any time)
        Op ch = g.mk(OP_CHUNK, slot);
        ch.c = r.range(-1, 1);
        t.ops.push_back(ch);
        continue;
      }
      if (w == 4 && r.chance(1, 2)) {
        // a counting call (also with a boundary below 2, which only the API can pass): the settings are not its business
        Op a = g.mk(OP_COUNT, slot);
        a.lines = gen_program(r, (int)r.range(0, 4), 0, r.chance(1, 6) ? 1 : -1);
        a.c = r.chance(1, 2) ? r.range(-2, 1) : r.range(2, 40);
        t.ops.push_back(a);
        continue;
      }
      if (w == 3 && internal[slot] && r.chance(1, 3)) {
        // a program beyond the initial capacity: the settings must survive growth, failure and restart
        Op a = g.mk(OP_ASM, slot);
        a.lines = gen_program(r, (int)r.range(1300, 1700), 0, r.coin() ? 2 : -1);
        t.ops.push_back(a);
        continue;
      }
      Op o = g.mk(OP_SETTER, slot);
      o.which = (int)r.below(5);
      o.value = vals[r.below(nvals)];
      if (r.chance(1, 25)) {
        // the same call many times in a row (idempotent by documentation), nothing else in between
        static const long bursts[] = {2, 3, 85, 86, 128, 255, 256, 257, 512, 768, 65536};
        o.k = bursts[r.below(11)];
      }
      t.ops.push_back(o);
    }
    p.tasks.push_back(t);
  }
  random_order(g);
}

// ---------------------------------------------------------------------------------------------------
// C08: the library-managed buffer grows transparently
void gen_c08(Gen &g) {
  Rng &r = g.r;
  Plan &p = g.p;
  p.world.mem_policy = (int)r.below(3);
  if (p.variant == "giant") {
    // "programs of any length": tens of megabytes of code on a library-managed instance - thousands of growth steps, sizes
    // beyond 2^24 and 2^25 bytes - in one to three calls (the twin comparison after a call is linear in the code),
    // plain or counting, then executed.  Long instructions only, to keep the number of lines down.
    Task t;
    static const long marks[] = {16L << 20, 16L << 20, 24L << 20, 32L << 20};
    long target = marks[r.below(4)] + r.range(-30, 300000);
    Op cr = mk_create(g, 0, -1);
    cr.twin = true;
    cr.k = target + 400000;
    t.ops.push_back(cr);
    p.world.step_budget = 400000000000L;
    p.world.max_anon = 256L << 20;
    p.world.mem_policy = 0;  // in place by default: every move takes twice the mapping's size of the arena's 3 GiB; the moves are placed below
    std::vector<std::string> pool;
    for (int L = 10; L <= 11; L++)
      for (int idx : corpus_by_len(L))
        if ((corpus_all()[idx].flags & CF_SAFE) && !(corpus_all()[idx].flags & (CF_RAX | CF_RET))) pool.push_back(line_text(idx));
    std::vector<std::string> prog;
    const int o = opt_index(2, 1, 1);
    long len = 0;
    while (!pool.empty() && len + 40 < target) {
      const std::string &l = r.pick(pool);
      prog.push_back(l);
      len += line_len(l, o);
    }
    prog.push_back(line_text(r.pick(corpus_rax())));
    prog.push_back(line_text(corpus_ret()));
    const bool counting = r.chance(1, 3);
    size_t parts = 1 + r.below(3), at = 0;
    for (size_t q = 0; q < parts; q++) {
      size_t end = q + 1 == parts ? prog.size() : at + (prog.size() - at) / (parts - q) + r.below(1000);
      end = std::min(end, prog.size());
      Op a = g.mk(counting ? OP_COUNT : OP_ASM, 0);
      a.c = counting ? r.range(2, 64) : 0;
      a.lines.assign(prog.begin() + at, prog.begin() + end);
      // nine of this call's growth steps move the mapping (early ones, late ones, random ones in between)
      long steps = (long)(end - at) * 10 / lib_geometry().step;
      for (int m = 0; m < 9 && steps > 0; m++) {
        EnvAns e;
        e.call = K_MREMAP;
        e.nth = (int)(m < 3 ? r.range(0, 3) : m < 6 ? steps - 1 - r.range(0, 40) : r.range(0, steps));
        e.ans = ANS_MOVE;
        if (e.nth >= 0) a.env.push_back(e);
      }
      t.ops.push_back(a);
      at = end;
    }
    t.ops.push_back(g.mk(OP_EXEC, 0));
    t.ops.push_back(g.mk(OP_DESTROY, 0));
    p.tasks.push_back(t);
    return;
  }
  Task t;
  Op cr = mk_create(g, 0, -1);
  cr.twin = true;
  cr.on = r.chance(1, 6);  // a caller that still uses asm_get_buffer() for everything, executing the code included
  t.ops.push_back(cr);
  int o = r.chance(1, 2) ? opt_index(2, 1, 1) : (int)r.below(12);
  if (o != opt_index(2, 1, 1)) emit_opts(g, t, 0, o / 4, (o / 2) & 1, o & 1);
  unsigned mode = (unsigned)r.below(10);  // 0..5 plain, 6..7 fitting, 8..9 counting
  long c = 0;
  if (mode >= 6 && mode <= 7) {
    Op ch = g.mk(OP_CHUNK, 0);
    ch.c = c = r.chance(3, 4) ? r.range(2, 64) : r.range(65, 5000);
    t.ops.push_back(ch);
  }
  long target;
  unsigned tw = (unsigned)r.below(10);
  int maxq = g.thorough ? 8 : 4;
  const bool huge = r.chance(1, g.thorough ? 300 : 4000);  // hundreds of growth steps: page-alignment coincidences of the mapping sizes
  if (huge) {
    maxq = 280;
    p.world.step_budget = 2000000000L;
    t.ops[0].k = 4100000;  // the twin's caller buffer has to hold the padded output as well
  }
  if (huge)
    target = lib_geometry().step * r.range(150, maxq) + r.range(-25, 25);
  else if (tw < 7)
    target = lib_geometry().step * r.range(1, maxq) + r.range(-25, 25);
  else if (tw < 9)
    target = r.range(30, lib_geometry().step * maxq);
  else
    target = r.range(30, 400);
  if (!huge && mode >= 6 && mode <= 7 && r.chance(1, 25)) {
    // chunk sizes beyond 16 bits with enough code to reach (and pass) their first boundaries
    long big = r.coin() ? r.range(65537, 70000) : r.range(70001, 200000);
    for (Op &op : t.ops)
      if (op.kind == OP_CHUNK) op.c = big;
    target = big * r.range(1, 2) + r.range(-40, 400);
    p.world.step_budget = 2000000000L;
    t.ops[0].k = target + 300000;
  }
  std::vector<std::string> prog = gen_exec_program(r, 0, o, target);
  if (mode >= 6 && mode <= 7 && r.chance(1, 3) && target < 60000) {
    // worst-case padding: long instructions of one length L with L < c < 2L, so that every chunk holds one
    // instruction and c - L bytes of padding; the output per line is far above the instruction length
    long L = r.range(7, 11);
    long cc = r.range(L + 1, 2 * L - 1);
    for (Op &op : t.ops)
      if (op.kind == OP_CHUNK) op.c = cc;
    std::vector<std::string> pool;
    for (int idx : corpus_by_len((int)L))
      if ((corpus_all()[idx].flags & CF_SAFE) && !(corpus_all()[idx].flags & (CF_RAX | CF_RET))) pool.push_back(line_text(idx));
    if (!pool.empty()) {
      long nlines = std::max<long>(8, target / cc);
      prog.clear();
      for (long q = 0; q < nlines; q++) prog.push_back(r.pick(pool));
      prog.push_back(line_text(r.pick(corpus_rax())));
      prog.push_back(line_text(corpus_ret()));
    }
  }
  if (!huge && r.chance(1, 6)) {
    // any accepted line, not only what can be executed here: long instructions (12..15 bytes, padding gaps above 11),
    // memory operands, filler lines and now and then a rejected line in the middle of a growing program
    long nlines = std::max<long>(4, target / 5);
    prog = gen_program(r, (int)nlines, 8, r.chance(1, 6) ? (int)r.range(1, 2) : -1);
    if (mode >= 6 && mode <= 7 && r.coin())
      for (Op &op : t.ops)
        if (op.kind == OP_CHUNK) op.c = r.range(13, 40);
  }
  if (!huge && r.chance(1, g.thorough ? 400 : 500)) {
    // page coincidences of the mapping sizes: capacities (observed initial + q * observed step) that end less than an
    // instruction's length before a page boundary - only there does the kernel's rounding to pages stop hiding a byte
    // written past the capacity.  A long instruction is placed to start within the last bytes of such a capacity.
    std::vector<long> qs;
    for (long q = 0; q <= 420; q++) {
      long cap = lib_geometry().initial + lib_geometry().step * q;
      if (4096 - cap % 4096 < 15 || cap % 4096 == 0) qs.push_back(q);
    }
    std::vector<std::string> longs;
    for (int len = 12; len <= 15; len++)
      for (int idx : corpus_by_len(len)) longs.push_back(line_text(idx));
    if (!qs.empty() && !longs.empty()) {
      long cap = lib_geometry().initial + lib_geometry().step * r.pick(qs);
      long at = cap - (r.chance(2, 3) ? (long)r.range(0, 3) : (long)r.range(0, 22));
      prog = gen_exec_program(r, 0, o, at);
      prog.push_back(r.pick(longs));
      for (int q = 0; q < 12; q++) prog.push_back(r.chance(1, 3) ? r.pick(longs) : pick_instr(r));
      p.world.step_budget = 2000000000L;
      t.ops[0].k = cap + 400000;
      for (Op &op : t.ops)
        if (op.kind == OP_CHUNK) op.c = 0;  // plain and counting only: positions are what the generator computed, and the twin's capacity suffices
    }
  }
  unsigned split = (unsigned)r.below(10);
  int kind = mode >= 8 ? OP_COUNT : OP_ASM;
  long cc = mode >= 8 ? (r.chance(1, 8) ? r.range(-2, 1) : r.range(2, 64)) : 0;
  if (split < 4)
    emit_split(g, t, 0, prog, 0, 1, kind, cc);
  else if (split < 8)
    emit_split(g, t, 0, prog, 1, (int)r.range(50, 1500), kind, cc);
  else
    emit_split(g, t, 0, prog, 1, (int)r.range(3, 40), kind, cc);
  for (Op &op : t.ops)
    if (op.kind == OP_ASM || op.kind == OP_COUNT) op.alias = false;
  t.ops.push_back(g.mk(OP_EXEC, 0));
  if (!huge && r.chance(1, 4)) {
    // a second library-managed instance of the same process, younger than the first, growing on its own
    Op c2 = mk_create(g, 1, -1);
    c2.twin = true;
    long tgt2 = lib_geometry().step * r.range(1, 3) + r.range(-25, 25);
    std::vector<std::string> prog2 = gen_exec_program(r, 0, opt_index(2, 1, 1), tgt2);
    size_t at = t.ops.size();
    std::vector<Op> tmp;
    {
      Task t2;
      emit_split(g, t2, 1, prog2, 1, (int)r.range(50, 1500));
      tmp = t2.ops;
    }
    // created either after the first instance has grown or before: insert the create at a random earlier point
    size_t cpos = 1 + r.below(at);
    t.ops.insert(t.ops.begin() + (long)cpos, c2);
    for (Op &o2 : tmp) {
      o2.alias = false;
      t.ops.push_back(o2);
    }
    t.ops.push_back(g.mk(OP_EXEC, 1));
  }
  {
    // patch the beginning and carry on at the end: rewind to 0, re-assemble the first lines, move the offset back to
    // where the program ended and append - nothing in between may be lost (plain mode: positions are sums of lengths)
    long total = 0;
    bool known = mode < 6 && !huge;
    for (const std::string &l : prog) {
      int ll = line_len(l, o);
      if (ll <= 0 && !(corpus_flags(l) & CF_FILLER)) known = false;
      total += ll;
    }
    if (known && total > 64 && r.chance(1, 4)) {
      Op so = g.mk(OP_OFFSET, 0);
      so.k = 0;
      t.ops.push_back(so);
      Op a = g.mk(OP_ASM, 0);
      for (size_t q = 0; q < prog.size() && q < 3; q++) a.lines.push_back(prog[q]);
      a.alias = false;
      t.ops.push_back(a);
      Op back = g.mk(OP_OFFSET, 0);
      back.k = total;
      t.ops.push_back(back);
      Op b = g.mk(OP_ASM, 0);
      b.lines = gen_exec_program(r, (int)r.range(1, 30), o, 0);
      b.alias = false;
      t.ops.push_back(b);
    }
  }
  if (r.chance(1, 3)) {
    // rewind and assemble a second program over the first
    Op so = g.mk(OP_OFFSET, 0);
    so.k = 0;
    t.ops.push_back(so);
    std::vector<std::string> prog2 = gen_exec_program(r, (int)r.range(1, 30), o, 0);
    emit_split(g, t, 0, prog2, 1, 4, kind, cc);
    t.ops.push_back(g.mk(OP_EXEC, 0));
  }
  if (r.coin()) t.ops.push_back(g.mk(OP_DESTROY, 0));
  p.tasks.push_back(t);
  (void)c;
}

// ---------------------------------------------------------------------------------------------------
// C19: file entry points
std::string pad_comment(long n, bool nl) {
  // exactly n bytes of comment text (n >= 0); ends in a newline if requested and possible
  std::string s;
  if (n <= 0) return s;
  if (n == 1) return nl ? "\n" : ";";
  s.push_back(';');
  while ((long)s.size() < n - (nl ? 1 : 0)) s.push_back("padding-"[s.size() % 8]);
  if (nl) s.push_back('\n');
  return s;
}

std::string file_of_size(Rng &r, long size, bool final_nl, bool with_reject) {
  if (!final_nl && size > 0 && r.chance(2, 3)) {
    // the file ends in an instruction whose last character is the last byte of the file (every byte of it counts),
    // now and then followed by a blank
    std::string last = pick_instr(r);
    if (r.chance(1, 6)) last += r.coin() ? " " : "\t";
    if ((long)last.size() <= size) return file_of_size(r, size - (long)last.size(), true, with_reject) + last;
  }
  std::string d;
  int guard = 0;
  bool rejected = !with_reject;
  while (guard++ < 3000) {
    std::string l;
    if (!rejected && r.chance(1, 4)) {
      l = pick_reject(r);
      rejected = true;
    } else
      l = r.chance(1, 8) ? pick_filler(r) : pick_instr(r);
    if ((long)(d.size() + l.size() + 1) > size) break;
    if (size > 2000 && r.chance(1, 3)) {
      // long comment lines keep big files cheap
      long room = size - (long)d.size() - (long)l.size() - 1;
      long cl = std::min<long>(room, r.range(100, 900));
      if (cl >= 2) d += pad_comment(cl, true);
      if ((long)(d.size() + l.size() + 1) > size) break;
    }
    d += l;
    d.push_back('\n');
  }
  long rem = size - (long)d.size();
  if (rem > 0) {
    d += pad_comment(rem, final_nl);
  } else if (!final_nl && !d.empty() && d.back() == '\n') {
    // replace the last newline by a comment character: same size, no final newline
    d.back() = ';';
  }
  return d;
}

void gen_c19(Gen &g) {
  Rng &r = g.r;
  Plan &p = g.p;
  p.world.behind = (int)r.below(3);
  p.world.mem_policy = (int)r.below(3);
  p.world.fd0_free = r.chance(1, 6);
  // a process that closes what it opens never holds more than one descriptor here
  p.world.fd_limit = r.chance(1, 3) ? (int)r.range(1, 4) : 0;
  Task t;
  bool internal = r.chance(1, 3);
  // mostly a buffer with room for everything; now and then a small caller buffer, where the in-memory counterpart runs
  // on a buffer of the same length (the 20-byte rule and a full buffer are part of "behaves exactly as")
  const bool small = !internal && r.chance(1, 5);
  const long cap = internal ? -1 : small ? interesting(r, 1, 160) : 70000;
  Op cr = mk_create(g, 0, cap);
  cr.twin = true;
  if (small) cr.k = cap;
  t.ops.push_back(cr);
  if (r.chance(1, 3)) {
    int o = (int)r.below(12);
    emit_opts(g, t, 0, o / 4, (o / 2) & 1, o & 1);
  }
  if (r.chance(1, 3)) {
    // the file entry points honour the instance's chunk fitting like the in-memory ones
    Op ch = g.mk(OP_CHUNK, 0);
    ch.c = r.chance(1, 10) ? r.range(0, 1) : r.range(2, 64);
    t.ops.push_back(ch);
  }
  int nfiles = (int)r.range(1, 3);
  for (int i = 0; i < nfiles; i++) {
    long size;
    unsigned sw = (unsigned)r.below(10);
    if (p.variant == "sweep") {
      // boundary sweep: run index enumerates sizes 0..64 and +-2 around page multiples
      static const long pts[] = {4094, 4095, 4096, 4097, 4098, 8190, 8191, 8192, 8193, 8194, 12286, 12287, 12288, 12289, 12290};
      long idx = (p.run + i * 7) % (65 + 15);
      size = idx < 65 ? idx : pts[idx - 65];
    } else if (r.chance(1, 120))
      // a large file (block-wise readers, size thresholds, other ways of loading big files); every second one is a page
      // multiple give or take two bytes
      size = r.coin() ? r.range(5 * 4096, 60 * 4096) : 4096 * r.range(5, 60) + r.range(-2, 2);
    else if (sw < 3)
      size = r.range(0, 64);
    else if (sw < 7)
      size = 4096 * r.range(1, 3) + r.range(-2, 2);
    else
      size = r.range(65, 4 * 4096);
    FileSpec f;
    f.path = "/sim/in" + std::to_string(i) + ".asm";
    f.data = file_of_size(r, size, r.coin(), r.chance(1, 8));
    if (r.chance(1, 6)) f.kind = 4;  // readable, but owned by another user (a system file)
    p.world.files.push_back(f);
  }
  // unreadable things
  {
    FileSpec f;
    f.path = "/sim/secret.asm";
    f.kind = 1;
    f.data = "ret\n";
    p.world.files.push_back(f);
    FileSpec d;
    d.path = "/sim/dir";
    d.kind = 2;
    p.world.files.push_back(d);
  }
  int ncalls = (int)r.range(1, 5);
  for (int i = 0; i < ncalls; i++) {
    // where the call starts: at 0, at an explicitly chosen offset (the file entry points honour it like the in-memory
    // ones; skipped by the runner when a library-managed buffer has nothing there yet), or right behind the previous call
    unsigned ow = (unsigned)r.below(8);
    if (i == 0 ? ow < 3 : ow < 6) {
      Op so = g.mk(OP_OFFSET, 0);
      so.k = ow % 3 == 0 ? 0 : ow % 3 == 1 ? (long)r.range(1, 200) : (r.coin() ? 4096 * r.range(1, 3) + r.range(-20, 0) : (long)r.range(201, 9000));
      if (small && r.coin()) so.k = std::max<long>(0, cap - (long)r.range(0, 45));
      t.ops.push_back(so);
    }
    if (r.chance(1, 12)) {
      // several calls on something that opens but cannot be read: each must give its descriptor back
      for (int q = (int)r.range(2, 5); q > 0; q--) {
        Op d = g.mk(r.chance(1, 3) ? OP_COUNT_FILE : OP_ASM_FILE, 0);
        d.path = "/sim/dir";
        d.c = r.range(2, 64);
        t.ops.push_back(d);
      }
      Op so = g.mk(OP_OFFSET, 0);
      so.k = 0;
      t.ops.push_back(so);
    }
    unsigned w = (unsigned)r.below(20);
    std::string path;
    if (w == 0 && r.chance(1, 3)) {
      // a name as long as a path can be, or longer: nothing there, or not even a valid name
      static const long lens[] = {300, 2000, 4000, 4070, 4095, 4096, 4200, 6000, 9000};
      path = long_path(p.world, lens[r.below(9)], "no_such_file_", false);
    } else if (w == 0 && r.coin()) {
      // an existing name with white space behind it is another name (and names no file here)
      static const char *tails[] = {" ", "\n", "\t", "  ", "\r\n"};
      path = "/sim/in" + std::to_string(r.below((uint64_t)nfiles)) + ".asm" + tails[r.below(5)];
    } else if (w == 0)
      path = "/sim/missing.asm";
    else if (w == 1)
      path = "/sim/secret.asm";
    else if (w == 2)
      path = "/sim/dir";
    else
      path = "/sim/in" + std::to_string(r.below((uint64_t)nfiles)) + ".asm";
    if (w >= 3 && r.chance(1, 10)) {
      // the same file through a symbolic link (whose own "size" is the length of the target's name)
      FileSpec ln;
      ln.path = "/sim/link" + std::to_string(p.world.files.size()) + ".asm";
      ln.kind = 3;
      ln.data = path;
      p.world.files.push_back(ln);
      path = ln.path;
    }
    Op a = g.mk(r.chance(1, 3) ? OP_COUNT_FILE : OP_ASM_FILE, 0);
    a.path = path;
    if (a.kind == OP_COUNT_FILE) {
      a.c = r.chance(1, 8) ? r.range(-1, 1) : r.range(2, 64);
      a.on = r.chance(1, 10);  // no place for the count: the file entry point still has to do what the string entry point does
    } else
      a.alias = r.chance(1, 8);
    if (r.chance(1, 4)) {
      // legal behaviour of read(2) that a loader has to cope with: short counts and interruptions (not refusals)
      int k = 1 + (int)r.below(3);
      for (int q = 0; q < k; q++) {
        EnvAns e;
        e.call = K_READ;
        e.nth = (int)r.below(4);
        if (r.coin()) {
          e.ans = ANS_SHORT;
          e.arg = (long)r.range(1, 5000);
        } else {
          e.ans = ANS_FAIL;
          e.err = EINTR;
        }
        a.env.push_back(e);
      }
    }
    t.ops.push_back(a);
    if (r.chance(1, 2)) {
      // binary output at an explicitly chosen offset
      Op so = g.mk(OP_OFFSET, 0);
      so.k = -2;  // resolved by the runner: "a random offset within what has been written" is not known here
      // choose small offsets that are certainly within the written part only after a successful call;
      // the runner skips set_offset calls outside the domain.
      static const long pagey[] = {4095, 4096, 4097, 8192, 12288, 1024, 2048, 6000, 6001, 6010, 6019, 6020};
      so.k = r.chance(1, 3) ? pagey[r.below(12)] : (long)r.below(40);  // (skipped by the runner when nothing has been written there yet)
      if (small && r.coin()) so.k = std::max<long>(0, cap - (long)r.range(0, 24));  // the last bytes of the buffer are code like any other
      t.ops.push_back(so);
      Op b = g.mk(OP_BIN_FILE, 0);
      unsigned pw = (unsigned)r.below(12);
      b.path = pw == 0 ? "/sim/dir" : pw == 1 ? "/sim/nodir/out.bin" : "/sim/out" + std::to_string(r.below(2)) + ".bin";
      t.ops.push_back(b);
    }
  }
  p.tasks.push_back(t);
}

// ---------------------------------------------------------------------------------------------------
// C17: scenario containing every resource-using path (faults are attached by the enumerator)
void gen_c17(Gen &g) {
  Rng &r = g.r;
  Plan &p = g.p;
  p.world.mem_policy = (int)r.below(3);
  p.world.fd0_free = r.chance(1, 6);
  Task t;
  // input files
  FileSpec f;
  f.path = "/sim/prog.asm";
  if (r.chance(1, 6)) {
    // a path about as long as a path can be: whatever is done with the name when a call on it is refused
    static const long lens[] = {260, 1000, 4000, 4064, 4090, 4095};
    f.path = long_path(p.world, lens[r.below(6)], "program_text_");
  }
  f.data = file_of_size(r, r.chance(1, 3) ? 4096 * r.range(1, 2) + r.range(-1, 1) : r.range(10, 3000), r.coin(), false);
  p.world.files.push_back(f);
  bool second = r.coin();
  t.ops.push_back(mk_create(g, 0, -1));
  if (second) t.ops.push_back(mk_create(g, 1, r.range(200, 2000)));
  int o = opt_index(2, 1, 1);
  // long assembly with growth, fed in a few calls; plain, chunk fitting or counting
  long target = r.chance(2, 3) ? lib_geometry().step * r.range(1, 2) + r.range(100, 3000) : r.range(100, 5000);
  std::vector<std::string> prog = gen_exec_program(r, 0, o, target);
  unsigned amode = (unsigned)r.below(6);  // 0..2 plain, 3..4 fitting, 5 counting
  if (amode == 3 || amode == 4) {
    Op ch = g.mk(OP_CHUNK, 0);
    ch.c = r.range(2, 48);
    if (amode == 4) {
      // long instructions of one length with one instruction per chunk: padding in front of nearly every line,
      // so growth is often needed in the retry after the padding
      long L = r.range(7, 11);
      ch.c = r.range(L + 1, 2 * L - 1);
      std::vector<std::string> pool;
      for (int idx : corpus_by_len((int)L))
        if ((corpus_all()[idx].flags & CF_SAFE) && !(corpus_all()[idx].flags & (CF_RAX | CF_RET))) pool.push_back(line_text(idx));
      if (!pool.empty()) {
        long nlines = std::max<long>(8, target / ch.c);
        prog.clear();
        for (long q = 0; q < nlines; q++) prog.push_back(r.pick(pool));
        prog.push_back(line_text(r.pick(corpus_rax())));
        prog.push_back(line_text(corpus_ret()));
      }
    }
    t.ops.push_back(ch);
  }
  emit_split(g, t, 0, prog, 1, (int)r.range(200, 2000), amode == 5 ? OP_COUNT : OP_ASM, r.range(2, 48));
  for (Op &op : t.ops) op.alias = false;
  std::vector<Op> tail;
  {
    Op b = g.mk(OP_BIN_FILE, 0);
    b.path = "/sim/big.bin";
    tail.push_back(b);
  }
  {
    Op so = g.mk(OP_OFFSET, second ? 1 : 0);
    so.k = 0;
    tail.push_back(so);
    Op a = g.mk(r.coin() ? OP_ASM_FILE : OP_COUNT_FILE, second ? 1 : 0);
    a.path = f.path;
    a.c = r.range(2, 64);
    tail.push_back(a);
  }
  if (second) {
    Op so = g.mk(OP_OFFSET, 1);
    so.k = 0;
    tail.push_back(so);
    Op a = g.mk(OP_ASM, 1);
    a.lines = gen_exec_program(r, (int)r.range(1, 8), o, 0);
    tail.push_back(a);
    Op b = g.mk(OP_BIN_FILE, 1);
    b.path = "/sim/small.bin";
    tail.push_back(b);
  }
  if (r.chance(1, 8)) {
    // binary output of more than a megabyte: a caller buffer of that size with the offset moved to its end (what lies
    // below was never assembled - the file has to hold exactly those bytes all the same)
    long big = (1L << 20) + r.range(1, 300000);
    tail.push_back(mk_create(g, 2, big + 64));
    Op so = g.mk(OP_OFFSET, 2);
    so.k = big;
    tail.push_back(so);
    Op b = g.mk(OP_BIN_FILE, 2);
    b.path = "/sim/large.bin";
    tail.push_back(b);
    tail.push_back(g.mk(OP_DESTROY, 2));
  }
  for (Op &x : tail) t.ops.push_back(x);
  // keep working after everything: more assembly at the end of the first buffer
  {
    Op so = g.mk(OP_OFFSET, 0);
    so.k = 0;
    t.ops.push_back(so);
    Op a = g.mk(OP_ASM, 0);
    a.lines = gen_exec_program(r, (int)r.range(1, 10), o, 0);
    t.ops.push_back(a);
    t.ops.push_back(g.mk(OP_EXEC, 0));
  }
  t.ops.push_back(g.mk(OP_DESTROY, 0));
  if (second) t.ops.push_back(g.mk(OP_DESTROY, 1));
  p.tasks.push_back(t);
}

}  // namespace

std::string respell_line(Rng &r, const std::string &line) { return respell(r, line); }

void gen_c18(Plan &p, Rng &r, bool thorough);
void gen_c20(Plan &p, Rng &r, bool thorough);

Plan generate(const GenParams &gp) {
  uint64_t s = mix64(mix64(gp.seed, fnv1a(gp.prop)), (uint64_t)gp.run ^ fnv1a(gp.variant));
  Gen g(s);
  g.p.prop = gp.prop;
  g.p.seed = gp.seed;
  g.p.run = gp.run;
  g.p.variant = gp.variant;
  g.thorough = gp.thorough;
  g.p.world.salt = g.r.next() & 0xffffffffffffULL;
  if (gp.prop == "C06") gen_c06(g);
  else if (gp.prop == "C07") gen_c07(g);
  else if (gp.prop == "C08") gen_c08(g);
  else if (gp.prop == "C12") gen_c12(g);
  else if (gp.prop == "C13") gen_c13(g);
  else if (gp.prop == "C14") gen_c14(g);
  else if (gp.prop == "C15") gen_c15(g);
  else if (gp.prop == "C17") gen_c17(g);
  else if (gp.prop == "C19") gen_c19(g);
  else if (gp.prop == "C18") gen_c18(g.p, g.r, g.thorough);
  else if (gp.prop == "C20") gen_c20(g.p, g.r, g.thorough);
  return g.p;
}

}  // namespace sim
