// Executes a plan against the real code + simulated OS + reference model and evaluates the oracles.
#pragma once
#include "plan.h"

#include <map>
#include <string>
#include <vector>

namespace sim {

struct Verdict {
  bool violated = false;
  bool in_scope = false;  // reported by the property's check (otherwise an out-of-scope observation)
  std::string cls;
  int task = -1;
  int op = -1;
  std::string detail;
  std::string signature() const;  // class + op kind, stable under minimisation
  std::string op_kind;
};

struct RunStats {
  long ops = 0, ops_skipped = 0;
  long asm_checked = 0;    // assemble calls compared against the model
  long asm_failed_expected = 0;
  long asm_unspec = 0;     // calls started while the offset was unspecified (containment only)
  long instr_lines = 0;
  long twin_compared = 0;
  long fresh_twins = 0;
  long execs = 0;
  long probes = 0;
  long faults_fired = 0;
  long steps = 0;
  long mremap_moves = 0;
  long growths = 0;
  long file_ops = 0, bin_files = 0;
  long launches = 0;
  long switches = 0;
  std::map<std::string, long> counters;  // named reach probes
  void bump(const std::string &k, long d = 1) { counters[k] += d; }
};

struct RunResult {
  Verdict v;
  uint64_t event_hash = 0;  // observations + logical time + schedule: equal iff the execution was the same
  uint64_t obs_hash = 0;    // observations only: what the callers could see (return values, offsets, bytes, counts, rax, outputs)
  std::vector<uint64_t> task_hashes;  // per caller task: hash of everything that caller observed
  std::vector<long> task_steps;       // fine mode: yield points passed by each task
  std::vector<std::vector<long>> op_starts;  // fine mode: per task, the yield-point count at which each operation began
  RunStats st;
  bool nontrivial = false;
  std::vector<std::vector<CallRec>> traces;  // per op (flattened in execution order), when requested
  std::vector<std::pair<int, int>> trace_ops;  // (task, op index) for each entry of traces
};

struct RunOptions {
  bool want_trace = false;
  bool verbose = false;  // print an event log line per operation to the real stdout
};

RunResult run_plan(const Plan &p, const RunOptions &o);
// `alsim pristine <plan>`: the child side of C15's new-process comparison (runner.cc, pristine_process)
int run_pristine(const Plan &p, FILE *out);

// which violation classes a property's check reports (DESIGN 5.4)
bool class_in_scope(const std::string &prop, const std::string &cls, int mode, bool external, bool after_explicit_offset,
                    int expect_fail, bool via_file, bool fault_context);

// abstract-state coverage (distinct (state, op, outcome) triples), accumulated across runs of a worker
long coverage_states();
long coverage_triples();
long coverage_fit_triples();  // distinct (c <= 48, position mod c, instruction length) placed in fitting mode
void coverage_note(uint64_t state_key, uint64_t triple_key);
// C12 transition coverage: (state 0..11, setter 0..4, value class 0..5)
long c12_transitions_covered();
long c12_transition_min();

// process-wide bookkeeping used by the death callback
extern volatile int g_cur_task, g_cur_op;
extern const char *g_cur_op_kind;

}  // namespace sim
