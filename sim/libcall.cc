// The only TU that sees the real header.  Compiled from /repo's working tree on every check.
#include "libcall.h"

extern "C" {
#include "assemblyline.h"
#ifdef WITH_ASMLINE
int asmline_main(int argc, char **argv);
#endif
}

#pragma clang diagnostic ignored "-Wdeprecated-declarations"

#include <pthread.h>

namespace lib {

static int g_racy_counter = 0;
static void *racy_thread(void *) {
  for (int i = 0; i < 1000; i++) g_racy_counter++;
  return nullptr;
}
int race_canary() {
  pthread_t a, b;
  pthread_create(&a, nullptr, racy_thread, nullptr);
  pthread_create(&b, nullptr, racy_thread, nullptr);
  pthread_join(a, nullptr);
  pthread_join(b, nullptr);
  return g_racy_counter;
}

inst_t create(uint8_t *buf, int len) { return (inst_t)asm_create_instance(buf, len); }
int destroy(inst_t a) { return asm_destroy_instance((assemblyline_t)a); }
int asm_str(inst_t a, const char *text, bool alias) {
  return alias ? ::assemble_str((assemblyline_t)a, text) : asm_assemble_str((assemblyline_t)a, text);
}
int count_str(inst_t a, char *text, int c, int *dest, bool alias) {
  return alias ? ::assemble_string_counting_chunks((assemblyline_t)a, text, c, dest)
               : asm_assemble_string_counting_chunks((assemblyline_t)a, text, c, dest);
}
int asm_file(inst_t a, char *path, bool alias) {
  return alias ? ::assemble_file((assemblyline_t)a, path) : asm_assemble_file((assemblyline_t)a, path);
}
int count_file(inst_t a, char *path, int c, int *dest) {
  return asm_assemble_file_counting_chunks((assemblyline_t)a, path, c, dest);
}
void set_chunk(inst_t a, size_t c) { asm_set_chunk_size((assemblyline_t)a, c); }
void set_debug(inst_t a, bool on) { asm_set_debug((assemblyline_t)a, on); }
int get_offset(inst_t a) { return asm_get_offset((assemblyline_t)a); }
void set_offset(inst_t a, int k) { asm_set_offset((assemblyline_t)a, k); }
void *get_code(inst_t a, bool alias) {
  return alias ? (void *)asm_get_buffer((assemblyline_t)a) : asm_get_code((assemblyline_t)a);
}
int bin_file(inst_t a, const char *path) { return asm_create_bin_file((assemblyline_t)a, path); }

int raw_value(int v) {
  switch (v) {
    case V_STRICT: return (int)STRICT;
    case V_NASM: return (int)NASM;
    case V_SMART: return (int)SMART;
    default: return v;
  }
}
void setter(inst_t a, int which, int value) {
  // the arguments are expressions with side effects, as a caller may well write them (asm_sib(al, script[i++])):
  // a function evaluates each argument once; should a tree turn a setter into a macro that does not, the second
  // evaluation yields another documented value and the instance ends up in another state
  const int v0 = raw_value(value);
  const int other = v0 >= 0 && v0 <= 2 ? (v0 + 1) % 3 : v0;
  int script[4] = {v0, other, other, other};
  assemblyline_t who[4] = {(assemblyline_t)a, (assemblyline_t)a, (assemblyline_t)a, (assemblyline_t)a};
  int i = 0, w = 0;
  switch (which) {
    case S_MOV_IMM: asm_mov_imm(who[w++], (enum asm_opt)script[i++]); break;
    case S_SWAP: asm_sib_index_base_swap(who[w++], (enum asm_opt)script[i++]); break;
    case S_NOBASE: asm_sib_no_base(who[w++], (enum asm_opt)script[i++]); break;
    case S_SIB: asm_sib(who[w++], (enum asm_opt)script[i++]); break;
    case S_SET_ALL: asm_set_all(who[w++], (enum asm_opt)script[i++]); break;
    default: break;
  }
}

#ifdef WITH_ASMLINE
int cli_main(int argc, char **argv) { return asmline_main(argc, argv); }
bool cli_present() { return true; }
#else
int cli_main(int, char **) { return 127; }
bool cli_present() { return false; }
#endif

}  // namespace lib
