#include "plan.h"
#include <string.h>
#include "libcall.h"

namespace sim {

static const char *OP_NAMES[OP_NKINDS] = {"create",     "destroy",       "setter",          "set_chunk_size", "set_offset",
                                          "set_debug",  "assemble_str",  "count_str",       "assemble_file",  "count_file",
                                          "create_bin_file", "exec",     "launch",          "refill_buffer",  "sabotage"};
const char *op_name(int k) { return (k >= 0 && k < OP_NKINDS) ? OP_NAMES[k] : "?"; }
static int op_from_name(const std::string &s) {
  for (int i = 0; i < OP_NKINDS; i++)
    if (s == OP_NAMES[i]) return i;
  return -1;
}
static const char *SETTER_NAMES[] = {"asm_mov_imm", "asm_sib_index_base_swap", "asm_sib_no_base", "asm_sib", "asm_set_all"};
static const char *value_name(int v) { return v == 0 ? "STRICT" : v == 1 ? "NASM" : v == 2 ? "SMART" : nullptr; }

std::string Op::text() const {
  static const char *SEP[] = {"\n", "\r\n", "\r"};
  std::string t;
  for (size_t i = 0; i < lines.size(); i++) {
    t += lines[i];
    if (i + 1 < lines.size() || final_nl) t += SEP[sep % 3];
  }
  return t;
}

std::vector<std::string> split_lines(const std::string &text) {
  std::vector<std::string> out;
  size_t i = 0;
  while (i < text.size()) {
    size_t j = text.find('\n', i);
    if (j == std::string::npos) {
      out.push_back(text.substr(i));
      break;
    }
    out.push_back(text.substr(i, j - i));
    i = j + 1;
  }
  return out;
}

static Json env_to_json(const std::vector<EnvAns> &env) {
  Json a = Json::Arr();
  for (const EnvAns &e : env) {
    Json o = Json::Obj();
    o.set("call", call_name(e.call));
    o.set("nth", e.nth);
    o.set("answer", ans_name(e.ans));
    if (e.arg) o.set("arg", e.arg);
    if (e.err) o.set("errno", errno_name(e.err));
    a.push(o);
  }
  return a;
}
static Json strs(const std::vector<std::string> &v) {
  Json a = Json::Arr();
  for (auto &s : v) a.push(Json::Str(s));
  return a;
}

static Json op_to_json(const Op &op) {
  Json o = Json::Obj();
  o.set("kind", op_name(op.kind));
  o.set("slot", op.slot);
  o.set("uid", (long long)op.uid);
  switch (op.kind) {
    case OP_CREATE:
      if (op.n < 0) {
        o.set("buffer", "internal");
        if (op.c) o.set("len_argument", op.c);  // documented as irrelevant when the buffer is NULL
      } else {
        o.set("buffer", "external");
        o.set("n", op.n);
        o.set("fill", op.fill);
        o.set("guard_side", op.guard ? "front" : "behind");
      }
      if (op.on) o.setb("code_through_deprecated_alias_only", true);
      if (op.twin) o.setb("twin", true);
      if (op.twin && op.k > 0) o.set("twin_capacity", op.k);
      break;
    case OP_SETTER:
      o.set("setter", SETTER_NAMES[op.which % 5]);
      if (value_name(op.value))
        o.set("value", value_name(op.value));
      else
        o.set("value", op.value);
      if (op.k > 1) o.set("times", op.k);
      break;
    case OP_REFILL: o.set("fill", op.fill); break;
    case OP_SABOTAGE:
      o.set("sin", op.which);
      o.set("k", op.k);
      break;
    case OP_CHUNK: o.set("c", op.c); break;
    case OP_OFFSET: o.set("k", op.k); break;
    case OP_DEBUG: o.setb("on", op.on); break;
    case OP_ASM:
    case OP_COUNT:
      o.set("lines", strs(op.lines));
      if (!op.final_nl) o.setb("final_newline", false);
      if (op.sep) o.set("line_end", op.sep == 1 ? "CRLF" : "CR");
      if (op.kind == OP_COUNT) o.set("c", op.c);
      if (op.kind == OP_COUNT && op.on) o.set("dest", "NULL");
      break;
    case OP_ASM_FILE:
    case OP_COUNT_FILE:
      o.set("path", op.path);
      if (op.kind == OP_COUNT_FILE) o.set("c", op.c);
      if (op.kind == OP_COUNT_FILE && op.on) o.set("dest", "NULL");
      break;
    case OP_BIN_FILE: o.set("path", op.path); break;
    case OP_LAUNCH:
      o.set("argv", strs(op.argv));
      o.set("input", op.input);
      o.setb("from_stdin", op.from_stdin);
      if (!op.chunks.empty()) {
        Json a = Json::Arr();
        for (int c : op.chunks) a.push(Json::Num(c));
        o.set("stdin_chunks", a);
      }
      break;
    default: break;
  }
  if (op.alias) o.setb("alias", true);
  if (op.fresh_twin) o.setb("fresh_twin", true);
  if (!op.env.empty()) o.set("env", env_to_json(op.env));
  return o;
}

static bool op_from_json(const Json &o, Op &op, std::string *err) {
  op = Op();
  op.kind = op_from_name(o.str("kind"));
  if (op.kind < 0) {
    if (err) *err = "unknown op kind " + o.str("kind");
    return false;
  }
  op.slot = (int)o.num("slot");
  op.uid = (uint64_t)o.num("uid");
  if (op.kind == OP_CREATE) {
    if (o.str("buffer") == "internal")
      op.n = -1;
    else
      op.n = o.num("n");
    op.fill = (int)o.num("fill", 0xCC);
    op.guard = o.str("guard_side") == "front" ? 1 : 0;
    op.twin = o.boolean("twin");
    if (op.twin && o.has("twin_capacity")) op.k = o.num("twin_capacity");
  }
  if (op.kind == OP_SETTER) {
    std::string s = o.str("setter");
    for (int i = 0; i < 5; i++)
      if (s == SETTER_NAMES[i]) op.which = i;
    const Json *v = o.get("value");
    if (v && v->type == Json::STR)
      op.value = v->s == "STRICT" ? 0 : v->s == "NASM" ? 1 : 2;
    else if (v)
      op.value = (int)v->n;
    if (o.has("times")) op.k = o.num("times");
  }
  if (op.kind == OP_SABOTAGE) op.which = (int)o.num("sin");
  if (op.kind == OP_REFILL) op.fill = (int)o.num("fill", 0xCC);
  op.c = o.num("c");
  if (op.kind == OP_CREATE) op.c = o.num("len_argument");
  if (o.has("k")) op.k = o.num("k");
  op.on = o.boolean("on");
  if (o.str("dest") == "NULL") op.on = true;
  if (op.kind == OP_CREATE && o.boolean("code_through_deprecated_alias_only")) op.on = true;
  if (const Json *l = o.get("lines"))
    for (const Json &s : l->a) op.lines.push_back(s.s);
  op.final_nl = o.boolean("final_newline", true);
  op.sep = o.str("line_end") == "CRLF" ? 1 : o.str("line_end") == "CR" ? 2 : 0;
  op.path = o.str("path");
  op.alias = o.boolean("alias");
  op.fresh_twin = o.boolean("fresh_twin");
  if (const Json *e = o.get("env"))
    for (const Json &x : e->a) {
      EnvAns a;
      a.call = call_from_name(x.str("call"));
      a.nth = (int)x.num("nth");
      a.ans = ans_from_name(x.str("answer"));
      a.arg = (long)x.num("arg");
      a.err = errno_from_name(x.str("errno", "0"));
      if (a.call >= 0) op.env.push_back(a);
    }
  if (const Json *av = o.get("argv"))
    for (const Json &s : av->a) op.argv.push_back(s.s);
  op.input = o.str("input");
  op.from_stdin = o.boolean("from_stdin");
  if (const Json *c = o.get("stdin_chunks"))
    for (const Json &x : c->a) op.chunks.push_back((int)x.n);
  return true;
}

Json plan_to_json(const Plan &p) {
  Json j = Json::Obj();
  j.set("format", 1);
  j.set("property", p.prop);
  j.set("seed", (long long)p.seed);
  j.set("run", p.run);
  if (!p.variant.empty()) j.set("variant", p.variant);
  if (!p.binary.empty()) j.set("binary", p.binary);
  Json w = Json::Obj();
  static const char *pol[] = {"inplace", "move", "coin"};
  w.set("mem_policy", pol[p.world.mem_policy % 3]);
  w.set("salt", (long long)p.world.salt);
  static const char *beh[] = {"inaccessible", "garbage", "zeros"};
  w.set("behind_file_mapping", beh[p.world.behind % 3]);
  w.set("step_budget", p.world.step_budget);
  if (p.world.max_anon) w.set("mapping_limit", p.world.max_anon);
  if (p.probe) w.setb("probe_options_after_setters", true);
  if (p.recover) w.setb("recover_after_fault", true);
  if (p.world.sabotage) w.set("sabotage", p.world.sabotage);
  if (p.world.fd0_free) w.setb("descriptor_0_free", true);
  if (p.world.fd_limit) w.set("descriptor_limit", p.world.fd_limit);
  if (!p.world.files.empty()) {
    Json fa = Json::Arr();
    for (const FileSpec &f : p.world.files) {
      Json fo = Json::Obj();
      fo.set("path", f.path);
      // symlink: data is the target's path; regular_other_owner: readable, but owned by another user
      static const char *kn[] = {"regular", "no_permission", "directory", "symlink", "regular_other_owner"};
      fo.set("kind", kn[f.kind % 5]);
      fo.set("data", f.data);
      fa.push(fo);
    }
    w.set("files", fa);
  }
  j.set("world", w);
  Json ta = Json::Arr();
  for (const Task &t : p.tasks) {
    Json to = Json::Obj();
    Json oa = Json::Arr();
    for (const Op &op : t.ops) oa.push(op_to_json(op));
    to.set("ops", oa);
    ta.push(to);
  }
  j.set("tasks", ta);
  Json s = Json::Obj();
  if (!p.fine) {
    s.set("mode", "coarse");
    Json oa = Json::Arr();
    for (int x : p.order) oa.push(Json::Num(x));
    s.set("order", oa);
  } else {
    s.set("mode", "fine");
    Json pa = Json::Arr();
    for (const Preempt &x : p.preempt) {
      Json po = Json::Obj();
      po.set("task", x.task);
      po.set("at_local_step", x.at);
      po.set("to", x.to);
      pa.push(po);
    }
    s.set("preempt", pa);
  }
  j.set("schedule", s);
  if (p.expect.type == Json::OBJ) j.set("expect", p.expect);
  return j;
}

bool plan_from_json(const Json &j, Plan &p, std::string *err) {
  p = Plan();
  if (j.type != Json::OBJ) {
    if (err) *err = "not an object";
    return false;
  }
  p.prop = j.str("property");
  p.seed = (uint64_t)j.num("seed");
  p.run = (long)j.num("run");
  p.variant = j.str("variant");
  p.binary = j.str("binary");
  if (const Json *w = j.get("world")) {
    std::string pol = w->str("mem_policy", "inplace");
    p.world.mem_policy = pol == "move" ? 1 : pol == "coin" ? 2 : 0;
    p.world.salt = (uint64_t)w->num("salt");
    std::string b = w->str("behind_file_mapping", "inaccessible");
    p.world.behind = b == "garbage" ? 1 : b == "zeros" ? 2 : 0;
    p.world.step_budget = (long)w->num("step_budget", 20000000);
    p.world.max_anon = (long)w->num("mapping_limit");
    p.probe = w->boolean("probe_options_after_setters");
    p.recover = w->boolean("recover_after_fault");
    p.world.sabotage = (int)w->num("sabotage");
    p.world.fd0_free = w->boolean("descriptor_0_free");
    p.world.fd_limit = (int)w->num("descriptor_limit");
    if (const Json *fa = w->get("files"))
      for (const Json &fo : fa->a) {
        FileSpec f;
        f.path = fo.str("path");
        std::string k = fo.str("kind", "regular");
        f.kind = k == "no_permission" ? 1 : k == "directory" ? 2 : k == "symlink" ? 3 : k == "regular_other_owner" ? 4 : 0;
        f.data = fo.str("data");
        p.world.files.push_back(f);
      }
  }
  if (const Json *ta = j.get("tasks"))
    for (const Json &to : ta->a) {
      Task t;
      if (const Json *oa = to.get("ops"))
        for (const Json &oj : oa->a) {
          Op op;
          if (!op_from_json(oj, op, err)) return false;
          t.ops.push_back(op);
        }
      p.tasks.push_back(t);
    }
  if (const Json *s = j.get("schedule")) {
    p.fine = s->str("mode") == "fine";
    if (const Json *oa = s->get("order"))
      for (const Json &x : oa->a) p.order.push_back((int)x.n);
    if (const Json *pa = s->get("preempt"))
      for (const Json &x : pa->a) {
        Preempt pr;
        pr.task = (int)x.num("task");
        pr.at = (long)x.num("at_local_step");
        pr.to = (int)x.num("to");
        p.preempt.push_back(pr);
      }
  }
  if (const Json *e = j.get("expect")) p.expect = *e;
  return true;
}

// structural hash of everything that defines the case (uids, seed, run index, expectation excluded)
std::string long_path(World &w, long len, const char *stem, bool make_dirs) {
  std::string path = "/sim";
  const size_t sl = strlen(stem);
  auto have_dir = [&](const std::string &d) {
    for (const FileSpec &f : w.files)
      if (f.kind == 2 && f.path == d) return true;
    return false;
  };
  // directories of 200 characters until what remains fits one component
  while ((long)path.size() + 1 + 200 < len) {
    path.push_back('/');
    for (int i = 0; i < 200; i++) path.push_back(stem[(size_t)i % sl]);
    if (make_dirs && !have_dir(path)) {
      FileSpec d;
      d.path = path;
      d.kind = 2;
      w.files.push_back(d);
    }
  }
  path.push_back('/');
  size_t i = 0;
  while ((long)path.size() < len) path.push_back(stem[i++ % sl]);
  return path;
}

uint64_t plan_hash(const Plan &p) {
  uint64_t h = 0xcbf29ce484222325ULL;
  auto mixi = [&](uint64_t v) { h = (h ^ v) * 0x100000001b3ULL; h ^= h >> 29; };
  auto mixs = [&](const std::string &v) { h = fnv1a(v.data(), v.size(), h); mixi(v.size()); };
  mixs(p.prop);
  mixs(p.variant);
  mixi((uint64_t)p.world.mem_policy);
  mixi(p.world.salt);
  mixi((uint64_t)p.world.behind);
  if (p.world.max_anon) mixi((uint64_t)p.world.max_anon);
  mixi((uint64_t)p.world.sabotage * 2 + (uint64_t)p.world.fd0_free + ((uint64_t)p.world.fd_limit << 8));
  mixi((uint64_t)p.probe * 2 + (uint64_t)p.recover);
  for (const FileSpec &f : p.world.files) {
    mixs(f.path);
    mixs(f.data);
    mixi((uint64_t)f.kind);
  }
  for (const Task &t : p.tasks) {
    mixi(0x7a5c);
    for (const Op &o : t.ops) {
      mixi((uint64_t)o.kind << 8 | (uint64_t)(o.slot & 0xff));
      mixi((uint64_t)o.n);
      mixi((uint64_t)(o.fill & 0xffff) << 8 | (uint64_t)o.guard << 4 | (uint64_t)o.twin << 3 | (uint64_t)o.alias << 2 | (uint64_t)o.fresh_twin << 1 | (uint64_t)o.final_nl);
      mixi((uint64_t)o.which << 32 | (uint32_t)o.value);
      mixi((uint64_t)o.c);
      mixi((uint64_t)o.k);
      mixi((uint64_t)o.on + 2 * (uint64_t)o.from_stdin + 4 * (uint64_t)o.sep);
      for (const std::string &l : o.lines) mixs(l);
      mixs(o.path);
      for (const EnvAns &e : o.env) mixi((uint64_t)e.call << 48 | (uint64_t)(e.nth & 0xffff) << 32 | (uint64_t)e.ans << 24 | (uint64_t)(e.err & 0xff) << 16 | (uint64_t)(e.arg & 0xffff));
      for (const std::string &a : o.argv) mixs(a);
      mixs(o.input);
      for (int c : o.chunks) mixi((uint64_t)c);
    }
  }
  mixi((uint64_t)p.fine);
  for (int x : p.order) mixi((uint64_t)x);
  for (const Preempt &x : p.preempt) mixi((uint64_t)x.task << 48 | (uint64_t)x.at << 8 | (uint64_t)(x.to & 0xff));
  return h;
}

}  // namespace sim
