// The line corpus (DESIGN 5.1).  Text is fixed; what each line encodes to is established at
// run time from the tree under test (isolated-line oracle in model.cc).
#pragma once
#include <string>
#include <vector>

namespace sim {

enum CorpusFlag {
  CF_SAFE = 1,     // may be executed: touches only caller-saved registers other than rax (or writes rax), no memory
  CF_RET = 2,      // the `ret` line
  CF_RAX = 4,      // writes rax (and nothing else)
  CF_FILLER = 8,   // expected to emit nothing (blank, comment, label, directive)
  CF_REJECT = 16,  // expected to be rejected when assembled alone
  CF_OPTSENS = 32,  // encoding depends on the option state
  CF_EITHER = 64    // unusual input: admitted as an instruction line if the tree accepts it, as a rejected line if it rejects it
};

struct CorpusLine {
  std::string text;
  int flags = 0;
  int len = 0;  // emitted length under the default options (0 for fillers/rejects)
};

// Builds the corpus tables; validates expectations against the tree under test:
// a CF_FILLER line is admitted only if it emits nothing, a CF_REJECT line only if it is rejected,
// every other line only if it assembles under all 12 option states; exec-safe lines that write rax
// are executed alone to learn the value.  Returns false if the oracle is unstable
// (forward/reverse/fill disagreement) and describes the problem in *why.
bool corpus_init(std::string *why);

const std::vector<CorpusLine> &corpus_all();
const std::vector<int> &corpus_instr();    // indices of ordinary instruction lines (accepted everywhere)
const std::vector<int> &corpus_fillers();
const std::vector<int> &corpus_rejects();
const std::vector<int> &corpus_safe();     // exec-safe, not ret, not rax-writing
const std::vector<int> &corpus_rax();      // exec-safe rax writers
const std::vector<int> &corpus_optsens();
const std::vector<int> &corpus_by_len(int len);  // instruction lines with that default length (1..15)
int corpus_ret();
int corpus_flags(const std::string &text);  // flags by text (0 if unknown)
int corpus_dropped();                        // lines not admitted on this tree
bool corpus_collapsed();                     // too few lines admitted: nothing can be checked
int corpus_unsafe();                         // lines marked exec-safe in the text that do not behave so when executed

}  // namespace sim
