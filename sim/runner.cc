// Plan execution: real code + simulated OS + model, oracles after every operation.
#include "runner.h"
#include "corpus.h"
#include "libcall.h"
#include "model.h"

#include <ctype.h>
#include <getopt.h>
#include <pthread.h>
#include <string.h>
#include <unistd.h>

#include <algorithm>
#include <set>
#include <unordered_set>

extern "C" {
void fine_reset(int ntasks);
int fine_add_preempt(int task, long at, int to);
void fine_task_enter(int task);
void fine_op_boundary(void);
void fine_task_exit(void);
void fine_ctl_wait(int target);
void fine_ctl_start(int first);
long fine_switches(void);
uint64_t fine_sched_hash(void);
long fine_pairs(void);
long fine_local_steps(int task);
}

namespace sim {

volatile int g_cur_task = -1, g_cur_op = -1;
const char *g_cur_op_kind = "";

std::string Verdict::signature() const { return cls + "@" + op_kind; }

// ---- coverage across runs -----------------------------------------------------------------------
static std::unordered_set<uint64_t> g_states, g_triples;
static long g_c12[12][5][6];
static std::unordered_set<uint64_t> g_fit_triples;  // (c <= 48, position mod c, instruction length) seen in fitting mode
long coverage_fit_triples() { return (long)g_fit_triples.size(); }
long coverage_states() { return (long)g_states.size(); }
long coverage_triples() { return (long)g_triples.size(); }
void coverage_note(uint64_t s, uint64_t t) {
  g_states.insert(s);
  g_triples.insert(t);
}
long c12_transitions_covered() {
  long n = 0;
  for (auto &a : g_c12)
    for (auto &b : a)
      for (long c : b) n += c > 0;
  return n;
}
long c12_transition_min() {
  long m = -1;
  for (auto &a : g_c12)
    for (auto &b : a)
      for (long c : b)
        if (m < 0 || c < m) m = c;
  return m;
}

static thread_local bool t_fit_history = false;  // the instance of the current operation had fitting switched on earlier

// ---- scope table (DESIGN 5.4) -------------------------------------------------------------------------
bool class_in_scope(const std::string &prop, const std::string &cls, int mode, bool external, bool after_explicit_offset,
                    int expect_fail, bool via_file, bool fault_context) {
  // whatever the call was meant to deliver, it did not
  if (cls == "crash" || cls == "hang" || cls == "sanitizer" || cls == "code_ptr") return true;
  if (cls == "outside_write") {
    // a byte outside the attached/managed buffer was (or would have been) written
    if (prop == "C07") return external;
    if (prop == "C08") return !external;
    return prop == "C17" ? fault_context : prop == "C18";
  }
  if (cls == "oracle_unstable") return prop == "C06" || prop == "C15";
  const bool model_cls = cls == "ret" || cls == "offset" || cls == "bytes" || cls == "fit" || cls == "count";
  // (feeding a piece through the counting entry point is one more way of feeding: same bytes, same offset; the count itself is C14's)
  if (prop == "C06") return (cls == "ret" || cls == "offset" || cls == "bytes") && (mode == M_PLAIN || mode == M_COUNT) && !via_file;
  if (prop == "C07") {
    if (!external) return false;
    if (cls == "prefix_modified") return true;
    // an attempt to remap or unmap memory around a caller buffer (the simulated kernel rejects it: the buffer is no mapping
    // of the library's) is an attempt to use memory outside [buffer, buffer+n)
    if (cls == "sim_reject") return true;
    // the 20-byte rule is judged at the model's positions, which are the library's own only when no padding is involved
    return cls == "ret" && expect_fail == FR_RESERVE && mode != M_FIT;
  }
  if (prop == "C08") {
    if (external) return false;
    return model_cls || cls == "twin" || cls == "exec" || cls == "prefix_modified" || cls == "sim_reject";
  }
  if (prop == "C12") return cls == "options";
  if (prop == "C13") {
    if (cls == "fit") return true;
    if (mode == M_FIT) return cls == "offset" || (cls == "ret" && expect_fail == FR_NONE);
    // "chunk sizes below 2 disable fitting": plain code is expected again once fitting was switched off
    if (mode == M_PLAIN && t_fit_history) return cls == "bytes" || cls == "offset";
    return false;
  }
  if (prop == "C14") return mode == M_COUNT && model_cls;
  if (prop == "C15") {
    // the fresh-instance comparison is the oracle; disagreement of both with the model is another property's business
    // "history": the model is contradicted after this history, while the very same call on a new instance in a new
    // process gives what the model says (state shared between instances fools the in-process fresh instance too)
    return cls == "fresh_twin" || cls == "prefix_modified" || cls == "carryover" || cls == "history";
  }
  if (prop == "C17") {
    if (cls == "fault_ret" || cls == "file_content" || cls == "prefix_modified") return true;
    if (cls == "sim_reject") return fault_context;
    return (model_cls || cls == "binfile_ret" || cls == "exec") && fault_context;  // recovery after the last fault
  }
  if (prop == "C18")
    return model_cls || cls == "exec" || cls == "options" || cls == "alone" || cls == "sim_reject" || cls == "unreadable_ret" || cls == "file_content" ||
           cls == "binfile_ret";
  if (prop == "C19") {
    if (cls == "twin" || cls == "file_content" || cls == "sim_reject" || cls == "unreadable_ret") return true;
    return cls == "binfile_ret";
  }
  if (prop == "C20") return cls.compare(0, 4, "cli_") == 0;
  return false;
}

// ---- runtime state -----------------------------------------------------------------------------------------
struct Inst {
  lib::inst_t al = nullptr;
  InstModel m;
  int ext = -1;  // island id of the caller buffer
  std::vector<uint8_t> mirror;
  Inst *twin = nullptr;
  bool alias_only = false;  // this caller only ever uses the deprecated asm_get_buffer() to reach the code
  bool faulted = false;  // a fault fired on this instance earlier in the run
  bool busy = false;     // fine mode: a call on this instance is in flight on its (parked) thread
};
struct TaskRt {
  Inst slots[4];
  size_t next = 0;
  OpCtx ctx, actx;
  bool done = false;
};

static thread_local int t_cur_ti = 0;  // the task the current thread is executing (threads in fine mode)

struct Run {
  const Plan *p = nullptr;
  RunOptions o;
  std::vector<TaskRt *> tasks;
  Verdict v;
  RunStats st;
  uint64_t eh = 0xcbf29ce484222325ULL;  // extra events not tied to a task (schedule hash)
  std::vector<uint64_t> task_eh;         // per task: what that caller observed, in its own order
  bool fault_seen = false;
  RunResult *res = nullptr;
  std::vector<uint64_t> task_sh;         // per task: logical time (library edges executed per call); not an observation
  void ev(uint64_t x) { task_eh[t_cur_ti] = (task_eh[t_cur_ti] ^ x) * 0x100000001b3ULL; }
  void ev_steps(uint64_t x) { task_sh[t_cur_ti] = (task_sh[t_cur_ti] ^ x) * 0x100000001b3ULL; }
  void ev_global(uint64_t x) { eh = (eh ^ x) * 0x100000001b3ULL; }
};

template <class F> static void tramp(void *p) { (*(F *)p)(); }
template <class F> static int in_lib(Run &R, OpCtx &c, F f) {
  int j = run_in_lib(&c, tramp<F>, &f, R.p->world.step_budget);
  stdout_reset();
  return j;
}

template <class F> static int in_lib_keep_stdout(Run &R, OpCtx &c, F f) { return run_in_lib(&c, tramp<F>, &f, R.p->world.step_budget); }

static void violate(Run &R, int ti, int oi, const Op *op, const std::string &cls, const std::string &detail, int mode = M_PLAIN,
                    bool external = true, bool explicit_off = false, int expect_fail = FR_NONE, bool via_file = false) {
  if (R.v.violated) return;
  R.v.violated = true;
  R.v.cls = cls;
  R.v.task = ti;
  R.v.op = oi;
  R.v.detail = detail;
  R.v.op_kind = op ? op_name(op->kind) : "";
  R.v.in_scope = class_in_scope(R.p->prop, cls, mode, external, explicit_off, expect_fail, via_file, R.fault_seen);
}

static std::string fault_text(Run &, OpCtx &c, const uint8_t *rel, size_t rel_len) {
  char b[64];
  const char *sn = c.fault_sig == SIGSEGV ? "SIGSEGV" : c.fault_sig == SIGBUS ? "SIGBUS" : c.fault_sig == SIGILL ? "SIGILL"
                   : c.fault_sig == SIGFPE ? "SIGFPE" : "signal";
  snprintf(b, sizeof b, "%s %s at ", sn, c.fault_exec ? "exec" : c.fault_write ? "write" : "read");
  if (c.fault_sig == SIGILL || c.fault_sig == SIGFPE) return std::string(b) + "instruction";
  return std::string(b) + describe_addr(c.fault_addr, rel, rel_len);
}

// returns true if the jump code denotes a crash/hang and records the violation
static bool crashed(Run &R, int ti, int oi, const Op *op, OpCtx &c, int j, const Inst *I) {
  if (j == J_NONE) return false;
  const uint8_t *rel = nullptr;
  size_t rl = 0;
  if (I && I->ext >= 0) {
    rel = extbuf_ptr(I->ext);
    rl = extbuf_len(I->ext);
  }
  if (j == J_FAULT) {
    // a write that faults inside the simulated address space is a write outside every buffer the
    // library owns or was given (guard page, gap, released mapping): the property that speaks about
    // that is C07 (caller buffers) / C08 (library-managed buffer).  Everything else is a plain crash.
    bool wild_write = (c.fault_sig == SIGSEGV || c.fault_sig == SIGBUS) && c.fault_write && addr_in_arena(c.fault_addr);
    violate(R, ti, oi, op, wild_write ? "outside_write" : "crash", fault_text(R, c, rel, rl), M_PLAIN, I ? I->m.external : true);
  }
  else if (j == J_HANG)
    violate(R, ti, oi, op, "hang", "step budget exceeded (" + std::to_string(R.p->world.step_budget) + " edges)");
  else
    violate(R, ti, oi, op, "crash", "unexpected exit() from library code");
  return true;
}

struct CodeView {
  const uint8_t *p = nullptr;
  long cap = 0;  // the library's view of the capacity
  bool ok = false;
  std::string why;
};

static CodeView view_code(Run &R, TaskRt &T, Inst &I, bool alias = false) {
  CodeView v;
  void *code = nullptr;
  int j = in_lib(R, T.actx, [&] { code = lib::get_code(I.al, alias || I.alias_only); });
  if (j != J_NONE) {
    v.why = "asm_get_code crashed";
    return v;
  }
  if (I.m.external) {
    if (code != extbuf_ptr(I.ext)) {
      v.why = "asm_get_code does not return the attached caller buffer";
      return v;
    }
    v.p = (const uint8_t *)code;
    v.cap = I.m.cap;
    v.ok = true;
    return v;
  }
  Island *is = island_of(code);
  if (!is || is->kind != IS_ANON || is->base != code) {
    v.why = "asm_get_code returns " + describe_addr((uintptr_t)code, nullptr, 0) + ", not the start of a live mapping";
    return v;
  }
  v.p = (const uint8_t *)code;
  v.cap = (long)is->len;
  v.ok = true;
  return v;
}

static long watch_len(const Inst &I, long cap) {
  long w = std::max<long>(8192, std::max(I.m.hi, I.m.offset_unspec ? 0 : I.m.offset) + 64);
  return std::min(cap, w);
}
static void refresh_mirror(Inst &I, const CodeView &cv, long from) {
  long w = watch_len(I, cv.cap);
  if ((long)I.mirror.size() < w) {
    long old = (long)I.mirror.size();
    I.mirror.resize(w);
    if (old < w) memcpy(I.mirror.data() + old, cv.p + old, w - old);
  }
  if (from < 0) from = 0;
  long n = std::min<long>((long)I.mirror.size(), cv.cap);
  if (from < n) memcpy(I.mirror.data() + from, cv.p + from, n - from);
}

// every buffer other than `cur` must be untouched; all canaries intact
static void check_memory(Run &R, int ti, int oi, const Op *op, Inst *cur) {
  {
    std::string ho = heap_overrun_take();
    if (!ho.empty() && !R.v.violated) {
      violate(R, ti, oi, op, "crash", ho);
      return;
    }
  }
  for (size_t t = 0; t < R.tasks.size() && !R.v.violated; t++)
    for (Inst &base : R.tasks[t]->slots)
      for (Inst *I = &base; I && !R.v.violated; I = I->twin) {
        if (!I->m.live || !I->al) continue;
        if (I->ext >= 0) {
          long d = 0;
          if (!extbuf_canary_ok(I->ext, &d)) {
            char b[128];
            snprintf(b, sizeof b, "byte at buffer%+ld modified (n=%zu)%s", d, extbuf_len(I->ext), I == cur ? "" : " [buffer of another instance]");
            violate(R, ti, oi, op, "outside_write", b);
            return;
          }
        }
        if (I == cur || I->busy) continue;
        if (I->m.external && I->ext >= 0 && !I->mirror.empty()) {
          const uint8_t *p = extbuf_ptr(I->ext);
          long n = std::min<long>((long)I->mirror.size(), (long)extbuf_len(I->ext));
          if (memcmp(p, I->mirror.data(), n)) {
            long k = 0;
            while (k < n && p[k] == I->mirror[k]) k++;
            violate(R, ti, oi, op, "outside_write", "buffer of another instance modified at offset " + std::to_string(k));
            return;
          }
        }
      }
}

static uint64_t state_key(const Inst &I) {
  const InstModel &m = I.m;
  int chunkc = m.chunk_unknown ? 3 : m.chunk == 0 ? 0 : m.chunk <= 16 ? 1 : 2;
  int offc = m.offset_unspec ? 4 : m.offset == 0 ? 0 : (m.external && m.cap - m.offset < 20) ? 3 : m.offset < 64 ? 1 : 2;
  return (uint64_t)m.opts() | (uint64_t)chunkc << 4 | (uint64_t)offc << 6 | (uint64_t)m.external << 9 | (uint64_t)m.debug << 10;
}

// ---- option probe (C12) ------------------------------------------------------------------------------------
static const char *PROBE_TEXT = "mov rax, 0x7fffffff\nmov rax, 0x000000007fffffff\nlea r15, [rax+rsp]\nlea r15, [2*rax]\n";

// classify one `mov rax, imm` at p: 'N' narrowed to 32-bit destination, 'K' 64-bit destination kept, '?' otherwise
static char classify_mov(const uint8_t *p, long avail, int *len) {
  static const uint8_t imm[4] = {0xff, 0xff, 0xff, 0x7f};
  if (avail >= 5 && p[0] == 0xb8 && !memcmp(p + 1, imm, 4)) {
    *len = 5;
    return 'N';
  }
  if (avail >= 7 && p[0] == 0x48 && p[1] == 0xc7 && p[2] == 0xc0 && !memcmp(p + 3, imm, 4)) {
    *len = 7;
    return 'K';
  }
  static const uint8_t z[4] = {0, 0, 0, 0};
  if (avail >= 10 && p[0] == 0x48 && p[1] == 0xb8 && !memcmp(p + 2, imm, 4) && !memcmp(p + 6, z, 4)) {
    *len = 10;
    return 'K';
  }
  *len = 0;
  return '?';
}

static void probe_instance(Run &R, TaskRt &T, Inst &I, int ti, int oi, const Op *op) {
  if (!I.m.live || !I.al || (I.m.external && I.m.cap < 64)) return;
  char *tb = textbuf_new(PROBE_TEXT, false);
  int ret = -1, off = -1;
  int j = in_lib(R, T.actx, [&] {
    lib::set_offset(I.al, 0);
    ret = lib::asm_str(I.al, tb, false);
    off = lib::get_offset(I.al);
  });
  if (crashed(R, ti, oi, op, T.actx, j, &I)) return;
  R.st.probes++;
  CodeView pcv = view_code(R, T, I);
  if (!pcv.ok) {
    violate(R, ti, oi, op, "code_ptr", pcv.why, M_PLAIN, I.m.external);
    return;
  }
  const uint8_t *b = pcv.p;
  std::string got;
  long p = 0;
  bool parse_ok = ret == 0 && off > 0 && off <= 40;
  if (parse_ok) {
    for (int k = 0; k < 2 && parse_ok; k++) {
      int l = 0;
      char c = classify_mov(b + p, off - p, &l);
      got.push_back(c);
      if (c == '?') parse_ok = false;
      p += l;
    }
  }
  if (parse_ok) {
    static const uint8_t swN[4] = {0x4c, 0x8d, 0x3c, 0x04}, swS[4] = {0x4c, 0x8d, 0x3c, 0x20};
    if (off - p >= 4 && !memcmp(b + p, swN, 4))
      got.push_back('N');
    else if (off - p >= 4 && !memcmp(b + p, swS, 4))
      got.push_back('S');
    else
      parse_ok = false;
    p += 4;
  }
  if (parse_ok) {
    static const uint8_t nbN[4] = {0x4c, 0x8d, 0x3c, 0x00}, nbS[8] = {0x4c, 0x8d, 0x3c, 0x45, 0, 0, 0, 0};
    if (off - p == 4 && !memcmp(b + p, nbN, 4))
      got.push_back('N');
    else if (off - p == 8 && !memcmp(b + p, nbS, 8))
      got.push_back('S');
    else
      parse_ok = false;
  }
  std::string want;
  want += I.m.mov == 1 ? "NN" : I.m.mov == 0 ? "KK" : "NK";
  want.push_back(I.m.swap ? 'N' : 'S');
  want.push_back(I.m.nobase ? 'N' : 'S');
  I.m.offset = ret == 0 ? off : 0;  // the probe text was assembled from offset 0: that is where the instance stands now
  I.m.offset_unspec = ret != 0;
  I.m.offset_explicit = false;
  if (ret == 0) I.m.hi = std::max<long>(I.m.hi, off);
  I.m.segs.clear();
  refresh_mirror(I, pcv, 0);
  if (!parse_ok || got != want) {
    char hex[200];
    int n = 0;
    for (long k = 0; k < off && k < 40 && n < 180; k++) n += snprintf(hex + n, sizeof hex - n, "%02x ", b[k]);
    if (off <= 0) hex[0] = 0;
    static const char *mv[] = {"STRICT", "NASM", "SMART"};
    char d[512];
    snprintf(d, sizeof d,
             "instance (task %d) should behave as mov_imm=%s swap=%s no_base=%s (signature %s) but the documented probe lines "
             "classify as %s%s; ret=%d bytes: %s",
             ti, mv[I.m.mov], I.m.swap ? "NASM" : "STRICT", I.m.nobase ? "NASM" : "STRICT", want.c_str(), got.c_str(),
             parse_ok ? "" : " (unrecognised)", ret, hex);
    violate(R, ti, oi, op, "options", d);
  }
}

static void probe_all(Run &R, int ti, int oi, const Op *op) {
  for (size_t t = 0; t < R.tasks.size() && !R.v.violated; t++)
    for (Inst &I : R.tasks[t]->slots)
      if (!R.v.violated) probe_instance(R, *R.tasks[t], I, (int)t, oi, op);
  (void)ti;
}

// ---- assemble-type operations ------------------------------------------------------------------------------------
struct AsmCall {
  int mode = M_PLAIN;     // how the model interprets it
  bool counting = false;  // counting entry point
  long c = 0;
  bool via_file = false;
  std::string path;
  std::string text;
  std::vector<std::string> lines;
  bool alias = false;
  bool null_dest = false;  // counting entry points: NULL where the count is to be stored (only needed once something is counted)
};

// perform one assemble-type call on instance I; returns ret (or -99 on crash)
static int do_asm_call(Run &R, TaskRt &T, Inst &I, const AsmCall &a, const std::vector<EnvAns> *env, uint64_t uid, OpCtx &ctx, int *count_out,
                       int *jcode) {
  const int sab = world().sabotage;  // canaries only: the harness lies to the library (DESIGN 5.5)
  char *tb = a.via_file ? textbuf_new(a.path, true) : textbuf_new(sab == 5 ? "nop\n" + a.text : a.text, a.counting);
  int ret = -99;
  int dest = 0x5a5a5a5a;
  const long cc = a.c + (sab == 4 ? 1 : 0);
  ctx.reset_op(env, uid);
  int j = in_lib(R, ctx, [&] {
    if (a.via_file)
      ret = a.counting ? lib::count_file(I.al, tb, (int)cc, a.null_dest ? nullptr : &dest) : lib::asm_file(I.al, tb, a.alias);
    else
      ret = a.counting ? lib::count_str(I.al, tb, (int)cc, a.null_dest ? nullptr : &dest, a.alias) : lib::asm_str(I.al, tb, a.alias);
  });
  (void)T;
  *jcode = j;
  if (count_out) *count_out = dest;
  return ret;
}

// C15: the same final call (same settings, same offset, same text) on a new instance in a NEW PROCESS whose first library
// calls these are.  State shared between instances (a static, a stale errno, a cache) fools a fresh instance of this
// process - and the isolated-line oracle's own instances have long run here - but not a process that has done nothing yet.
// The child is this very binary (`alsim pristine <plan>`); it runs no oracle, no model, no corpus: create, the three
// canonical option setters, chunk size, offset, the call.  The verdict is as repeatable as any replay.
struct PristineResult {
  bool ok = false;     // the child delivered a result
  bool fault = false;  // ... and it was a crash / hang inside the library
  int ret = -99, off = -1, count = 0;
  std::vector<uint8_t> bytes;  // [start, off) when ret == 0
  std::string text;
};

static Plan pristine_plan(const Plan &base, const InstModel &m, const Op &op, long start, long off_seen) {
  Plan q;
  q.prop = base.prop;
  q.variant = "pristine";
  q.world = base.world;
  q.world.sabotage = 0;
  Task t;
  uint64_t uid = 1;
  auto mk = [&](int kind) {
    Op o;
    o.kind = kind;
    o.slot = 0;
    o.uid = uid++;
    return o;
  };
  Op c = mk(OP_CREATE);
  const bool fresh_internal = !m.external && start <= lib_geometry().initial + lib_geometry().step - 120;
  c.n = m.external ? m.cap : fresh_internal ? -1 : std::max<long>(65536, std::max<long>(off_seen, start) + 8192);
  c.fill = op.fill;
  t.ops.push_back(c);
  const int sv[3] = {m.mov, m.swap, m.nobase};
  for (int w = 0; w < 3; w++) {
    Op o = mk(OP_SETTER);
    o.which = w;  // S_MOV_IMM, S_SWAP, S_NOBASE
    o.value = sv[w];
    t.ops.push_back(o);
  }
  if (m.chunk > 0) {
    Op o = mk(OP_CHUNK);
    o.c = m.chunk;
    t.ops.push_back(o);
  }
  Op so = mk(OP_OFFSET);
  so.k = start;
  t.ops.push_back(so);
  Op fin = op;
  fin.slot = 0;
  fin.uid = uid++;
  fin.fresh_twin = false;
  fin.alias = false;
  fin.env.clear();
  t.ops.push_back(fin);
  q.tasks.push_back(t);
  return q;
}

static PristineResult pristine_process(Run &R, const InstModel &m, const Op &op, long start, long off_seen) {
  PristineResult pr;
  if (R.p->variant == "pristine" || R.p->fine || m.chunk_unknown || m.offset_unspec) return pr;
  Plan q = pristine_plan(*R.p, m, op, start, off_seen);
  static int counter = 0;
  char path[128], exe[512];
  snprintf(path, sizeof path, "/tmp/alsim-pristine-%d-%d.json", (int)getpid(), counter++);
  ssize_t el = readlink("/proc/self/exe", exe, sizeof exe - 1);
  if (el <= 0) return pr;
  exe[el] = 0;
  FILE *f = fopen(path, "w");
  if (!f) return pr;
  fprintf(f, "%s\n", plan_to_json(q).dump().c_str());
  fclose(f);
  std::string cmd = std::string("'") + exe + "' pristine '" + path + "' 2>/dev/null";
  FILE *pp = popen(cmd.c_str(), "r");
  if (pp) {
    std::string out;
    char buf[4096];
    size_t n;
    while ((n = fread(buf, 1, sizeof buf, pp)) > 0) out.append(buf, n);
    pclose(pp);
    size_t at = out.find("PRISTINE ");
    if (at != std::string::npos) {
      std::string l = out.substr(at, out.find('\n', at) - at);
      pr.text = l;
      if (l.compare(0, 15, "PRISTINE fault ") == 0) {
        pr.ok = pr.fault = true;
      } else {
        char hex[8] = {0};
        int nb = 0, pos = 0;
        if (sscanf(l.c_str(), "PRISTINE ret=%d off=%d count=%d n=%d bytes=%n", &pr.ret, &pr.off, &pr.count, &nb, &pos) >= 4 && pos > 0) {
          pr.ok = true;
          for (int i = 0; i < nb && (size_t)(pos + 2 * i + 1) < l.size(); i++) {
            hex[0] = l[(size_t)(pos + 2 * i)];
            hex[1] = l[(size_t)(pos + 2 * i + 1)];
            pr.bytes.push_back((uint8_t)strtoul(hex, nullptr, 16));
          }
          if ((int)pr.bytes.size() != nb) pr.ok = false;
        }
      }
    }
  }
  unlink(path);
  R.st.bump("pristine_process_calls");
  return pr;
}

// the child side: `alsim pristine <plan>`
int run_pristine(const Plan &p, FILE *out) {
  if (p.tasks.size() != 1 || p.tasks[0].ops.size() < 3) return 2;
  const std::vector<Op> &ops = p.tasks[0].ops;
  const Op &cr = ops.front(), &fin = ops.back();
  if (cr.kind != OP_CREATE) return 2;
  const bool counting = fin.kind == OP_COUNT || fin.kind == OP_COUNT_FILE;
  const bool via_file = fin.kind == OP_ASM_FILE || fin.kind == OP_COUNT_FILE;
  if (!counting && !via_file && fin.kind != OP_ASM) return 2;
  sim_begin_run(p.world);
  Run R;
  R.p = &p;
  TaskRt T;
  R.tasks.push_back(&T);
  R.task_eh.assign(2, 0);
  R.task_sh.assign(2, 0);
  int eb = -1;
  if (cr.n >= 0) {
    eb = extbuf_new((size_t)cr.n, cr.guard, cr.fill, cr.uid);
    if (eb < 0) return 2;
  }
  char *tb = via_file ? textbuf_new(fin.path, true) : textbuf_new(fin.text(), counting);
  int ret = -99, off = -1, count = 0x5a5a5a5a;
  long start = 0;
  std::vector<uint8_t> bytes;
  T.actx.reset_op(nullptr, fin.uid);
  int j = in_lib(R, T.actx, [&] {
    lib::inst_t al = eb >= 0 ? lib::create(extbuf_ptr(eb), (int)cr.n) : lib::create(nullptr, 0);
    if (!al) return;
    for (size_t i = 1; i + 1 < ops.size(); i++) {
      const Op &o = ops[i];
      if (o.kind == OP_SETTER) lib::setter(al, o.which, o.value);
      else if (o.kind == OP_CHUNK) lib::set_chunk(al, (size_t)o.c);
      else if (o.kind == OP_OFFSET) {
        lib::set_offset(al, (int)o.k);
        start = o.k;
      }
    }
    if (via_file)
      ret = counting ? lib::count_file(al, tb, (int)fin.c, &count) : lib::asm_file(al, tb, false);
    else
      ret = counting ? lib::count_str(al, tb, (int)fin.c, &count, false) : lib::asm_str(al, tb, false);
    off = lib::get_offset(al);
    if (ret == 0 && off >= start) {
      const uint8_t *code = (const uint8_t *)lib::get_code(al, false);
      Island *is = island_of(code + start);
      if (off == start || (is && code + off <= is->base + is->len)) bytes.assign(code + start, code + off);
    }
    lib::destroy(al);
  });
  if (j != J_NONE) {
    fprintf(out, "PRISTINE fault %s\n", j == J_HANG ? "hang" : fault_text(R, T.actx, eb >= 0 ? extbuf_ptr(eb) : nullptr, eb >= 0 ? extbuf_len(eb) : 0).c_str());
    return 0;
  }
  fprintf(out, "PRISTINE ret=%d off=%d count=%d n=%d bytes=", ret, off, counting ? count : 0, (int)bytes.size());
  for (uint8_t b : bytes) fprintf(out, "%02x", b);
  fprintf(out, "\n");
  return 0;
}

// does the new process's result differ from what was observed here?  (empty = no, or undecided)
static std::string pristine_differs(const PristineResult &pr, bool counting, int ret, int off, int count_out, const uint8_t *code, long start) {
  char d[300];
  if (!pr.ok) return "";
  if (pr.fault) {
    snprintf(d, sizeof d, "after this history the call gave ret/offset %d/%d; on a new instance in a new process it ends in a %s", ret, off, pr.text.c_str() + 9);
    return d;
  }
  if (pr.ret != ret || (ret == 0 && pr.off != off)) {
    snprintf(d, sizeof d, "after this history the call gave ret/offset %d/%d, the same settings, offset and text on a new instance in a new process give %d/%d",
             ret, off, pr.ret, pr.off);
    return d;
  }
  if (ret != 0) return "";
  if ((long)pr.bytes.size() != off - start) return "";
  for (long q = 0; q < off - start; q++)
    if (pr.bytes[(size_t)q] != code[start + q]) {
      snprintf(d, sizeof d, "byte at offset %ld is %02x after this history, %02x on a new instance in a new process with the same settings", start + q,
               code[start + q], pr.bytes[(size_t)q]);
      return d;
    }
  if (counting && pr.count != count_out) {
    snprintf(d, sizeof d, "count %d after this history, %d on a new instance in a new process", count_out, pr.count);
    return d;
  }
  return "";
}

static void exec_asm(Run &R, TaskRt &T, int ti, int oi, const Op &op) {
  Inst &I = T.slots[op.slot & 3];
  if (!I.m.live || !I.al) {
    R.st.ops_skipped++;
    return;
  }
  AsmCall a;
  a.counting = op.kind == OP_COUNT || op.kind == OP_COUNT_FILE;
  a.via_file = op.kind == OP_ASM_FILE || op.kind == OP_COUNT_FILE;
  a.c = op.c;
  a.alias = op.alias;
  a.null_dest = a.counting && op.on;
  int file_kind = -1;  // -1 missing
  if (a.via_file) {
    a.path = op.path;
    SimFile *f = file_lookup(op.path);
    if (f && f->kind == 3) f = file_lookup(f->data);  // a symbolic link names the file it points to
    if (f) {
      file_kind = f->kind == 4 ? 0 : f->kind;  // somebody else's readable file is a readable file
      a.text = f->data;
    }
    R.st.file_ops++;
  } else {
    a.text = op.text();
  }
  a.lines = a.via_file ? split_lines(a.text) : op.lines;  // (a plan's lines may be joined by CR LF or a lone CR)
  InstModel &m = I.m;
  const bool unspec_before = m.offset_unspec;
  const bool explicit_off = m.offset_explicit;
  const long start = m.offset;
  bool unconstrained = unspec_before;
  if (a.counting) {
    if (m.chunk > 0 || m.chunk_unknown) unconstrained = true;  // contradictory documentation: containment only
    a.mode = M_COUNT;
  } else {
    if (m.chunk_unknown) unconstrained = true;
    a.mode = m.chunk > 0 ? M_FIT : M_PLAIN;
    a.c = m.chunk;
  }
  const uint64_t sk = state_key(I);
  t_fit_history = m.ever_fit;

  // snapshot for the prefix check
  CodeView before = view_code(R, T, I);
  if (!before.ok) {
    violate(R, ti, oi, &op, "code_ptr", before.why, a.mode, m.external);
    return;
  }
  refresh_mirror(I, before, (long)I.mirror.size());  // extend only
  long hi_before = m.hi;

  int count_out = 0, j = 0;
  int ret = do_asm_call(R, T, I, a, &op.env, op.uid, T.ctx, &count_out, &j);
  R.st.steps += sim_steps_now();
  if (T.ctx.fired_total) {
    R.st.faults_fired += T.ctx.fired_total;
    R.fault_seen = true;
    I.faulted = true;
  }
  R.st.mremap_moves += T.ctx.mremap_moves;
  R.st.growths += T.ctx.mremap_calls;
  if (crashed(R, ti, oi, &op, T.ctx, j, &I)) return;
  if (!T.ctx.sim_error.empty()) {
    violate(R, ti, oi, &op, "sim_reject", T.ctx.sim_error, a.mode, m.external, explicit_off, 0, a.via_file);
    return;
  }
  int off = 0;
  int j2 = in_lib(R, T.actx, [&] { off = lib::get_offset(I.al); });
  if (crashed(R, ti, oi, &op, T.actx, j2, &I)) return;
  CodeView cv = view_code(R, T, I, op.alias && !a.via_file);
  if (!cv.ok) {
    violate(R, ti, oi, &op, "code_ptr", cv.why, a.mode, m.external);
    return;
  }
  check_memory(R, ti, oi, &op, &I);
  if (R.v.violated) return;
  R.ev(mix64((uint64_t)op.kind << 8 | (uint64_t)(ret & 0xff), (uint64_t)(uint32_t)off));
  R.ev_steps((uint64_t)sim_steps_now());

  // bytes below the start of this call are never modified
  if (!unspec_before && start >= 0) {
    long n = std::min<long>(std::min<long>(start, (long)I.mirror.size()), cv.cap);
    if (n > 0 && memcmp(cv.p, I.mirror.data(), n)) {
      long k = 0;
      while (k < n && cv.p[k] == I.mirror[k]) k++;
      char b[160];
      snprintf(b, sizeof b, "byte at offset %ld, below the start offset %ld of this call, changed from %02x to %02x", k, start, I.mirror[k], cv.p[k]);
      violate(R, ti, oi, &op, "prefix_modified", b, a.mode, m.external, explicit_off);
      return;
    }
  }
  if (ret != 0 && ret != 1) {
    violate(R, ti, oi, &op, "ret", "return value " + std::to_string(ret) + " is neither EXIT_SUCCESS nor EXIT_FAILURE", a.mode, m.external,
            explicit_off, 0, a.via_file);
    return;
  }

  if (unconstrained) {
    // containment, no crash, termination only
    R.st.asm_unspec++;
    m.offset_unspec = true;
    m.offset_explicit = false;
    m.segs.clear();
    refresh_mirror(I, cv, 0);
    coverage_note(sk, mix64(sk, (uint64_t)op.kind * 16 + 15));
    return;
  }

  // file that cannot be read: failure expected, nothing else constrained
  if (a.via_file && file_kind != 0) {
    R.st.bump("file_unreadable");
    if (ret != 1)
      violate(R, ti, oi, &op, "unreadable_ret", std::string("returned success for a ") + (file_kind < 0 ? "missing file" : file_kind == 1 ? "file without read permission" : "directory"),
              a.mode, m.external, explicit_off, FR_REJECT, true);
    m.offset_unspec = true;
    m.offset_explicit = false;
    m.truncate_segs(start);
    refresh_mirror(I, cv, start);
    return;
  }

  // ---- twin: the same call on a sufficiently large caller buffer (C08) / the in-memory counterpart
  // of a file entry point (C19).  Compared before the model is consulted: the twin is the oracle the
  // property statements name; the model comes second.
  if (I.twin && I.twin->m.live && !I.twin->m.offset_unspec && T.ctx.fired_total == 0) {
    Inst &W = *I.twin;
    AsmCall b = a;
    b.via_file = false;  // the twin always takes the text from memory
    b.alias = false;
    int wc = 0, wj = 0;
    long wstart = W.m.offset;
    int wret = do_asm_call(R, T, W, b, nullptr, op.uid, T.actx, &wc, &wj);
    if (crashed(R, ti, oi, &op, T.actx, wj, &W)) return;
    int woff = 0;
    in_lib(R, T.actx, [&] { woff = lib::get_offset(W.al); });
    const uint8_t *wp = extbuf_ptr(W.ext);
    R.st.twin_compared++;
    char d[200];
    const char *what = a.via_file ? "in-memory counterpart on the file's contents" : "same call on a large caller buffer";
    if (wret != ret || wstart != start || (ret == 0 && woff != off)) {
      snprintf(d, sizeof d, "ret/offset %d/%d differ from the twin's %d/%d (%s)", ret, off, wret, woff, what);
      violate(R, ti, oi, &op, "twin", d, a.mode, m.external, explicit_off, 0, a.via_file);
      return;
    }
    if (ret == 0) {
      if (off < 0 || off > cv.cap || off > W.m.cap) {
        violate(R, ti, oi, &op, "twin", "offset outside the buffer", a.mode, m.external, explicit_off, 0, a.via_file);
        return;
      }
      // what this call emitted; the bytes below its start are each instance's own earlier output (or memory the library
      // never wrote, when the caller moved the offset forward) and are watched by the prefix check of each instance
      const long from = (start >= 0 && start <= off) ? start : 0;
      if (memcmp(wp + from, cv.p + from, (size_t)(off - from))) {
        long q = from;
        while (q < off && wp[q] == cv.p[q]) q++;
        snprintf(d, sizeof d, "byte at offset %ld is %02x, the twin has %02x (%s)", q, cv.p[q], wp[q], what);
        violate(R, ti, oi, &op, "twin", d, a.mode, m.external, explicit_off, 0, a.via_file);
        return;
      }
      if (a.counting && wc != count_out) {
        snprintf(d, sizeof d, "count %d differs from the twin's %d (%s)", count_out, wc, what);
        violate(R, ti, oi, &op, "twin", d, a.mode, m.external, explicit_off, 0, a.via_file);
        return;
      }
      W.m.offset = woff;
      W.m.hi = std::max(W.m.hi, (long)woff);
    } else {
      W.m.offset_unspec = true;
    }
    CodeView wv;
    wv.p = wp;
    wv.cap = W.m.cap;
    wv.ok = true;
    refresh_mirror(W, wv, 0);
  }

  if (a.null_dest) {
    // what a counting call does without a place for the count is not written down anywhere; the twin comparison above is
    // all there is to say (file and memory must agree), the instance is restarted by the next set_offset
    m.offset_unspec = true;
    m.offset_explicit = false;
    m.segs.clear();
    refresh_mirror(I, cv, 0);
    return;
  }

  // ---- fresh twin (C15): the same call on a new instance brought to the same settings.  Compared before
  // the model is consulted: history independence is a statement about two instances of the same tree.
  if (op.fresh_twin && !a.via_file && !m.chunk_unknown) {
    // a library-managed buffer is compared with a fresh library-managed buffer as long as the start offset
    // lies within what a new instance can reach (its first growth quantum ahead); beyond that with a large
    // caller buffer (C08's equivalence)
    // (a new instance reaches its initial capacity plus one growth step, as observed on this tree)
    const bool fresh_internal = !m.external && start <= lib_geometry().initial + lib_geometry().step - 120;
    long ncap = m.external ? m.cap : std::max<long>(65536, std::max<long>(off, start) + 8192);
    int eb = fresh_internal ? -1 : extbuf_new((size_t)ncap, op.guard ^ 1, (op.fill == 0) ? 0xFF : 0x00, op.uid ^ 0x5555);
    if (!fresh_internal && eb < 0) return;
    lib::inst_t fal = nullptr;
    int fret = -99, foff = -1, fcount = 0x5a5a5a5a;
    std::vector<uint8_t> fcopy;
    char *tb = textbuf_new(a.text, a.counting);
    T.actx.reset_op(nullptr, op.uid);
    int fj = in_lib(R, T.actx, [&] {
      fal = fresh_internal ? lib::create(nullptr, 0) : lib::create(extbuf_ptr(eb), (int)ncap);
      if (!fal) return;
      lib::setter(fal, lib::S_MOV_IMM, m.mov);
      lib::setter(fal, lib::S_SWAP, m.swap);
      lib::setter(fal, lib::S_NOBASE, m.nobase);
      if (m.chunk > 0) lib::set_chunk(fal, (size_t)m.chunk);
      lib::set_offset(fal, (int)start);
      fret = a.counting ? lib::count_str(fal, tb, (int)a.c, &fcount, false) : lib::asm_str(fal, tb, false);
      foff = lib::get_offset(fal);
      if (fresh_internal && fret == 0 && foff >= start) {
        const uint8_t *code = (const uint8_t *)lib::get_code(fal, false);
        Island *fis = island_of(code);
        // only what this call emitted is looked at: a text without instructions at an offset beyond what a new
        // instance has mapped writes nothing and need not grow anything
        if (foff == start)
          fcopy.assign((size_t)foff, 0);
        else if (fis && code + foff <= fis->base + fis->len) {
          fcopy.assign((size_t)foff, 0);
          memcpy(fcopy.data() + start, code + start, (size_t)(foff - start));
        }
      }
      lib::destroy(fal);
    });
    R.st.fresh_twins++;
    if (fresh_internal) R.st.bump("fresh_twin_internal");
    if (fj != J_NONE) {
      crashed(R, ti, oi, &op, T.actx, fj, nullptr);
      if (eb >= 0) extbuf_free(eb);
      return;
    }
    if (fresh_internal && fret == 0 && (long)fcopy.size() != foff) {
      violate(R, ti, oi, &op, "code_ptr", "fresh instance: asm_get_code does not point at a live mapping holding the bytes this call emitted", a.mode, false, explicit_off);
      return;
    }
    const uint8_t *fp = fresh_internal ? fcopy.data() : extbuf_ptr(eb);
    char d[240];
    bool bad = false;
    if (fret != ret || (ret == 0 && foff != off)) {
      snprintf(d, sizeof d, "after this history the call gave ret/offset %d/%d, a fresh instance with the same settings and offset %ld gives %d/%d", ret, off,
               start, fret, foff);
      bad = true;
    } else if (ret == 0 && off >= start && off <= cv.cap && off <= ncap && memcmp(fp + start, cv.p + start, (size_t)(off - start))) {
      long q = start;
      while (q < off && fp[q] == cv.p[q]) q++;
      snprintf(d, sizeof d, "byte at offset %ld is %02x after this history, %02x on a fresh instance with the same settings", q, cv.p[q], fp[q]);
      bad = true;
    } else if (ret == 0 && a.counting && fcount != count_out) {
      snprintf(d, sizeof d, "count %d after this history, %d on a fresh instance", count_out, fcount);
      bad = true;
    }
    if (eb >= 0) extbuf_free(eb);
    if (bad) {
      violate(R, ti, oi, &op, "fresh_twin", d, a.mode, m.external, explicit_off);
      return;
    }
    // a sample of these calls is also repeated in a new process (see pristine_process)
    if (R.p->prop == "C15" && explicit_off && mix64(op.uid, 0x9e3779b97f4a7c15ULL) % 160 == 0 && off <= cv.cap && T.ctx.fired_total == 0) {
      std::string why = pristine_differs(pristine_process(R, m, op, start, off), a.counting, ret, off, count_out, cv.p, start);
      if (!why.empty()) {
        violate(R, ti, oi, &op, "history", why, a.mode, m.external, explicit_off);
        return;
      }
    }
  }

  AsmCheck k;
  k.m = &m;
  k.lines = &a.lines;
  k.mode = a.mode;
  k.c = a.c;
  k.start = start;
  k.ret = ret;
  k.off_after = off;
  k.buf = cv.p;
  k.buf_cap = cv.cap;
  // (an interrupted open/write is no refusal: the call may retry or give up - failure is accepted, success is judged in full)
  k.fault_fired = T.ctx.fired_total > 0 || (T.ctx.soft_faults > 0 && ret != 0);
  // A refused read(2) only matters if the data was needed: stdio probes for end-of-file and reads ahead, and a
  // loader that already holds the whole file may ignore such a failure.  With read faults only, failure is
  // accepted, and success is accepted if everything else is as if nothing had been refused.
  if (k.fault_fired && T.ctx.fired[K_READ] == T.ctx.fired_total && ret == 0) {
    k.fault_fired = false;
    R.st.bump("read_fault_survived");
  }
  k.count_out = count_out;
  check_assemble(k);
  R.st.asm_checked++;
  R.st.instr_lines += k.n_instr;
  if (k.reserve_edge) R.st.bump("reserve_edge");
  coverage_note(sk, mix64(sk, (uint64_t)op.kind * 16 + (uint64_t)k.expect_fail * 2 + (uint64_t)(ret & 1)));

  // Before blaming the call: does a line of this call, assembled alone on a fresh instance *now*, still give
  // what it gave earlier in this process?  If not, the library's behaviour drifts with what the process did
  // before (state shared between instances, e.g. a stale errno): reported as such (C06, C15).
  if ((!k.ret_ok && k.expect_fail != FR_FAULT) || !k.bytes_ok || !k.fit_ok || !k.off_ok || !k.count_ok) {
    size_t checked = 0;
    for (const std::string &ln : a.lines) {
      if (++checked > 40) break;
      if (!enc_recheck(ln, m.opts(), 0x5A)) {
        violate(R, ti, oi, &op, "oracle_unstable",
                "line \"" + ln.substr(0, 80) + "\" assembled alone on a fresh instance now gives another result than earlier in this process", a.mode,
                m.external, explicit_off);
        return;
      }
    }
    if (R.p->prop == "C15" && explicit_off && !k.fault_fired && off <= cv.cap) {
      std::string why = pristine_differs(pristine_process(R, m, op, start, off), a.counting, ret, off, count_out, cv.p, start);
      if (!why.empty()) {
        violate(R, ti, oi, &op, "history", why, a.mode, m.external, explicit_off);
        return;
      }
    }
  }
  if (!k.ret_ok) {
    bool fault_cls = k.expect_fail == FR_FAULT;
    violate(R, ti, oi, &op, fault_cls ? "fault_ret" : "ret", k.detail, a.mode, m.external, explicit_off, k.expect_fail, a.via_file);
    return;
  }
  if (k.expect_fail != FR_NONE) {
    R.st.asm_failed_expected++;
    R.st.bump(k.expect_fail == FR_REJECT ? "fail_reject" : k.expect_fail == FR_RESERVE ? "fail_reserve" : "fail_fault");
    if (k.expect_fail == FR_RESERVE && a.mode == M_FIT) R.st.bump("pad_then_buffer_exhausted_or_fit_reserve");
    m.offset_unspec = true;
    m.offset_explicit = false;
    m.truncate_segs(start);
    refresh_mirror(I, cv, start);
    // C17: code assembled earlier stays intact and retrievable (prefix check above), instance stays usable
    if (R.p->recover && k.expect_fail == FR_FAULT) {
      int rj = in_lib(R, T.actx, [&] { lib::set_offset(I.al, (int)start); });
      if (crashed(R, ti, oi, &op, T.actx, rj, &I)) return;
      m.offset = start;
      m.offset_unspec = false;
      m.offset_explicit = true;
      R.st.bump("recovered_after_fault");
    }
    return;
  }
  if (!k.bytes_ok) {
    violate(R, ti, oi, &op, "bytes", k.detail, a.mode, m.external, explicit_off, 0, a.via_file);
    return;
  }
  if (!k.fit_ok) {
    violate(R, ti, oi, &op, "fit", k.detail, a.mode, m.external, explicit_off, 0, a.via_file);
    return;
  }
  if (!k.off_ok) {
    violate(R, ti, oi, &op, "offset", k.detail, a.mode, m.external, explicit_off, 0, a.via_file);
    return;
  }
  if (!k.count_ok) {
    violate(R, ti, oi, &op, "count", k.detail, a.mode, m.external, explicit_off, 0, a.via_file);
    return;
  }
  // success: update the model
  if (a.mode == M_FIT) {
    if (a.c <= 48) {
      // the position at which the instruction arrived (before any padding in front of it)
      long arrive = -1;
      for (const Seg &sg : k.segs) {
        if (sg.pad) {
          if (arrive < 0) arrive = sg.start;
          continue;
        }
        long at = arrive >= 0 ? arrive : sg.start;
        g_fit_triples.insert((uint64_t)a.c << 32 | (uint64_t)(at % a.c) << 8 | (uint64_t)sg.len);
        arrive = -1;
      }
    }
    R.st.bump("fit_calls");
    R.st.bump("pads", k.pads);
    R.st.bump("gap_gt11_padded", k.pads_gt11);
    R.st.bump("instr_ge_chunk", k.instr_ge_c);
    R.st.bump("exact_fit", k.exact_fit);
    if (T.ctx.mremap_calls && k.pads) R.st.bump("pad_and_growth_in_one_call");
  }
  if (a.mode == M_COUNT) {
    R.st.bump("count_calls");
    if (k.expect_count > 0) R.st.bump("count_nonzero");
    if (a.c < 2) R.st.bump("count_c_lt_2");
  }
  if (T.ctx.mremap_calls) R.st.bump("calls_with_growth");
  m.truncate_segs(start);
  for (const Seg &s : k.segs) m.segs.push_back(s);
  m.offset = k.end;
  m.offset_unspec = false;
  m.offset_explicit = false;
  m.hi = std::max(m.hi, k.end);
  refresh_mirror(I, cv, start);
  R.ev(fnv1a(cv.p + start, (size_t)(k.end - start)));
  if (a.mode == M_COUNT) R.ev((uint64_t)count_out);
  (void)hi_before;

}

// ---- other operations -------------------------------------------------------------------------------------------------
static void destroy_inst(Run &R, TaskRt &T, Inst &I) {
  if (I.al) in_lib(R, T.actx, [&] { lib::destroy(I.al); });
  if (I.ext >= 0) extbuf_free(I.ext);
  I = Inst();
}

static void exec_create(Run &R, TaskRt &T, int ti, int oi, const Op &op) {
  Inst &I = T.slots[op.slot & 3];
  if (I.m.live) {
    R.st.ops_skipped++;
    return;
  }
  I = Inst();
  bool ext = op.n >= 0;
  uint8_t *buf = nullptr;
  if (ext) {
    I.ext = extbuf_new((size_t)op.n, op.guard, op.fill, op.uid);
    if (I.ext < 0) return;
    buf = extbuf_ptr(I.ext);
  }
  lib::inst_t al = nullptr;
  T.ctx.reset_op(&op.env, op.uid);
  int j = in_lib(R, T.ctx, [&] { al = lib::create(buf, ext ? (int)op.n : (int)op.c); });
  R.st.steps += sim_steps_now();
  bool fired = T.ctx.fired_total > 0;
  if (fired) {
    R.st.faults_fired += T.ctx.fired_total;
    R.fault_seen = true;
  }
  if (crashed(R, ti, oi, &op, T.ctx, j, &I)) return;
  check_memory(R, ti, oi, &op, nullptr);
  if (R.v.violated) return;
  R.ev(mix64(OP_CREATE, al ? 1 : 0));
  if (fired) {
    if (al) {
      violate(R, ti, oi, &op, "fault_ret", "asm_create_instance returned an instance although the OS refused a call it needs", M_PLAIN, ext);
      return;
    }
    R.st.bump("create_failed_by_fault");
    if (I.ext >= 0) extbuf_free(I.ext);
    I = Inst();
    return;
  }
  if (!al) {
    violate(R, ti, oi, &op, "ret", "asm_create_instance returned NULL without any refused OS call", M_PLAIN, ext);
    return;
  }
  I.al = al;
  I.alias_only = op.on;  // plan: this instance's code is only ever reached through the deprecated asm_get_buffer()
  I.m.reset_created(ext, ext ? op.n : 0);
  if (ext) {
    CodeView cv;
    cv.p = buf;
    cv.cap = op.n;
    refresh_mirror(I, cv, 0);
  }
  if (op.twin) {
    Inst *W = new Inst();
    long n = op.k > 0 ? op.k : 420000;  // "a sufficiently large caller buffer" (the plan says how large for huge programs)
    W->ext = extbuf_new((size_t)n, 0, 0x00, op.uid ^ 0x77);
    if (W->ext >= 0) {
      int wj = in_lib(R, T.actx, [&] { W->al = lib::create(extbuf_ptr(W->ext), (int)n); });
      if (wj == J_NONE && W->al) {
        W->m.reset_created(true, n);
        I.twin = W;
      }
    }
    if (!I.twin) delete W;
  }
}

static void exec_destroy(Run &R, TaskRt &T, int ti, int oi, const Op &op) {
  Inst &I = T.slots[op.slot & 3];
  if (!I.m.live || !I.al) {
    R.st.ops_skipped++;
    return;
  }
  int ret = -99;
  T.ctx.reset_op(&op.env, op.uid);
  int j = in_lib(R, T.ctx, [&] { ret = lib::destroy(I.al); });
  bool fired = T.ctx.fired_total > 0;
  if (fired) {
    R.st.faults_fired += T.ctx.fired_total;
    R.fault_seen = true;
  }
  I.al = nullptr;
  if (crashed(R, ti, oi, &op, T.ctx, j, &I)) return;
  if (!T.ctx.sim_error.empty()) {
    violate(R, ti, oi, &op, "sim_reject", T.ctx.sim_error, M_PLAIN, I.m.external);
    return;
  }
  bool ext = I.m.external;
  I.m.live = false;  // its buffer is no longer watched as "belonging to an instance", canary still is
  check_memory(R, ti, oi, &op, nullptr);
  R.ev(mix64(OP_DESTROY, (uint64_t)ret));
  if (!R.v.violated) {
    if (fired && ret != 1)
      violate(R, ti, oi, &op, "fault_ret", "asm_destroy_instance returned " + std::to_string(ret) + " although munmap was refused", M_PLAIN, ext);
    else if (!fired && ret != 0)
      violate(R, ti, oi, &op, "ret", "asm_destroy_instance returned " + std::to_string(ret), M_PLAIN, ext);
  }
  if (I.twin) {
    destroy_inst(R, T, *I.twin);
    delete I.twin;
    I.twin = nullptr;
  }
  if (I.ext >= 0) extbuf_free(I.ext);
  I = Inst();
}

static void exec_simple(Run &R, TaskRt &T, int ti, int oi, const Op &op) {
  Inst &I = T.slots[op.slot & 3];
  if (!I.m.live || !I.al) {
    R.st.ops_skipped++;
    return;
  }
  InstModel &m = I.m;
  if (op.kind == OP_OFFSET) {
    long lim = m.external ? m.cap : m.hi;
    if (op.k < 0 || op.k > lim) {
      R.st.ops_skipped++;
      return;
    }
  }
  const uint64_t sk = state_key(I);
  for (Inst *X = &I; X; X = X->twin) {
    if (!X->al) continue;
    int j = in_lib(R, T.actx, [&] {
      switch (op.kind) {
        case OP_SETTER:
          for (long rep = std::max<long>(1, op.k); rep > 0; rep--) lib::setter(X->al, op.which, op.value);
          break;
        case OP_CHUNK: lib::set_chunk(X->al, (size_t)(op.c + (world().sabotage == 3 ? 1 : 0))); break;
        case OP_OFFSET: lib::set_offset(X->al, (int)op.k); break;
        case OP_DEBUG: lib::set_debug(X->al, op.on); break;
      }
    });
    if (crashed(R, ti, oi, &op, T.actx, j, X)) return;
    InstModel &xm = X->m;
    switch (op.kind) {
      case OP_SETTER: {
        if (X == &I) {
          int vc = (op.value >= 0 && op.value <= 2) ? op.value : op.value == 3 ? 3 : op.value == 77 ? 4 : 5;
          g_c12[xm.opts()][op.which % 5][vc]++;
        }
        xm.apply_setter(op.which, op.value);
        break;
      }
      case OP_CHUNK: xm.apply_chunk(op.c); break;
      case OP_OFFSET:
        xm.offset = op.k;
        xm.offset_unspec = false;
        xm.offset_explicit = true;
        break;
      case OP_DEBUG: xm.debug = op.on; break;
    }
  }
  check_memory(R, ti, oi, &op, nullptr);
  R.ev(mix64((uint64_t)op.kind, (uint64_t)(op.which * 1000 + op.value) ^ (uint64_t)op.c ^ (uint64_t)op.k << 20));
  coverage_note(sk, mix64(sk, (uint64_t)op.kind * 16));
}

static void exec_bin_file(Run &R, TaskRt &T, int ti, int oi, const Op &op) {
  Inst &I = T.slots[op.slot & 3];
  if (!I.m.live || !I.al || I.m.offset_unspec) {
    R.st.ops_skipped++;
    return;
  }
  CodeView cv = view_code(R, T, I);
  if (!cv.ok) {
    violate(R, ti, oi, &op, "code_ptr", cv.why, M_PLAIN, I.m.external);
    return;
  }
  long off = I.m.offset;
  if (off > cv.cap) {
    R.st.ops_skipped++;
    return;
  }
  // will the simulated file system accept the path?
  bool path_ok = path_writable(op.path);
  char *pb = textbuf_new(op.path, false);
  int ret = -99;
  T.ctx.reset_op(&op.env, op.uid);
  int j = in_lib(R, T.ctx, [&] { ret = lib::bin_file(I.al, pb); });
  bool fired = T.ctx.fired_total > 0;
  if (fired) {
    R.st.faults_fired += T.ctx.fired_total;
    R.fault_seen = true;
  }
  R.st.bin_files++;
  if (crashed(R, ti, oi, &op, T.ctx, j, &I)) return;
  if (!T.ctx.sim_error.empty()) {
    violate(R, ti, oi, &op, "sim_reject", T.ctx.sim_error, M_PLAIN, I.m.external, false, 0, true);
    return;
  }
  check_memory(R, ti, oi, &op, nullptr);
  if (R.v.violated) return;
  R.ev(mix64(OP_BIN_FILE, (uint64_t)ret));
  SimFile *f = file_lookup(op.path);
  bool complete = f && f->written && (long)f->data.size() == off && !memcmp(f->data.data(), cv.p, (size_t)off);
  char d[200];
  if (ret == 0 && !complete) {
    snprintf(d, sizeof d, "asm_create_bin_file returned EXIT_SUCCESS but the file holds %ld of %ld bytes%s", f ? (long)f->data.size() : -1L, off,
             f && (long)f->data.size() == off ? " (contents differ)" : "");
    violate(R, ti, oi, &op, "file_content", d, M_PLAIN, I.m.external, false, 0, true);
    return;
  }
  if (fired && ret != 1) {
    snprintf(d, sizeof d, "asm_create_bin_file returned %d although the OS refused a call", ret);
    violate(R, ti, oi, &op, "fault_ret", d, M_PLAIN, I.m.external, false, FR_FAULT, true);
    return;
  }
  if (!fired && path_ok && ret != 0 && T.ctx.soft_faults == 0) {  // after a transient short write giving up is allowed
    snprintf(d, sizeof d, "asm_create_bin_file returned %d for a writable path", ret);
    violate(R, ti, oi, &op, "binfile_ret", d, M_PLAIN, I.m.external, false, 0, true);
    return;
  }
  if (!path_ok && ret != 1) {
    violate(R, ti, oi, &op, "binfile_ret", "asm_create_bin_file returned success for a path that cannot be written", M_PLAIN, I.m.external, false, FR_REJECT, true);
    return;
  }
  if (ret == 0) R.st.bump("bin_file_ok");
  else R.st.bump("bin_file_failed");
}

static void exec_exec(Run &R, TaskRt &T, int ti, int oi, const Op &op) {
  Inst &I = T.slots[op.slot & 3];
  uint64_t want = 0;
  if (!I.m.live || !I.al || !I.m.exec_ready(&want)) {
    R.st.ops_skipped++;
    return;
  }
  CodeView cv = view_code(R, T, I);
  if (!cv.ok) {
    violate(R, ti, oi, &op, "code_ptr", cv.why, M_PLAIN, I.m.external);
    return;
  }
  uint64_t got = 0;
  int j = in_lib(R, T.actx, [&] { got = call_zeroed((const void *)cv.p); });
  R.st.execs++;
  if (j != J_NONE) {
    violate(R, ti, oi, &op, "exec", "executing the assembled code failed: " + fault_text(R, T.actx, cv.p, (size_t)cv.cap), M_PLAIN, I.m.external);
    return;
  }
  R.ev(got);
  if (got != want) {
    char d[160];
    snprintf(d, sizeof d, "assembled code returned rax=0x%llx, expected 0x%llx", (unsigned long long)got, (unsigned long long)want);
    violate(R, ti, oi, &op, "exec", d, M_PLAIN, I.m.external);
  }
}

#include "cli_proc.inc"

// the caller overwrites its own buffer (everything: it owns the memory); the instance keeps its offset
static void exec_refill(Run &R, TaskRt &T, const Op &op) {
  Inst &I = T.slots[op.slot & 3];
  if (!I.m.live || !I.al || I.ext < 0) {
    R.st.ops_skipped++;
    return;
  }
  uint8_t *p = extbuf_ptr(I.ext);
  size_t n = extbuf_len(I.ext);
  if (op.fill >= 0)
    memset(p, op.fill, n);
  else {
    Rng rr(op.uid ^ 0x1234);
    for (size_t i = 0; i < n; i++) p[i] = (uint8_t)rr.next();
  }
  I.m.segs.clear();
  CodeView cv;
  cv.p = p;
  cv.cap = (long)n;
  refresh_mirror(I, cv, 0);
  R.st.bump("caller_refilled_buffer");
}

static void exec_sabotage(Run &R, TaskRt &T, const Op &op) {
  Inst &I = T.slots[op.slot & 3];
  if (!I.m.live || !I.al) return;
  (void)R;
  switch (op.which) {
    case 0:  // flip a byte inside the buffer (below the current offset)
      if (I.ext >= 0 && op.k < (long)extbuf_len(I.ext)) extbuf_ptr(I.ext)[op.k] ^= 0x55;
      break;
    case 1:  // write one byte past the end / in front of the caller buffer
      if (I.ext >= 0) {
        Island *is = island_of(extbuf_ptr(I.ext) + (extbuf_len(I.ext) ? 0 : -1));
        if (is) {
          uint8_t *p = extbuf_ptr(I.ext);
          if (p + extbuf_len(I.ext) < is->base + is->len) p[extbuf_len(I.ext)] ^= 0x55;
          else p[-1] ^= 0x55;
        }
      }
      break;
    case 2:  // change an option behind the model's back
      in_lib(R, T.actx, [&] { lib::setter(I.al, lib::S_MOV_IMM, I.m.mov == 0 ? 1 : 0); });
      break;
  }
}

static void exec_op(Run &R, int ti, int oi) {
  TaskRt &T = *R.tasks[ti];
  const Op &op = R.p->tasks[ti].ops[oi];
  g_cur_task = ti;
  g_cur_op = oi;
  t_cur_ti = ti;
  g_cur_op_kind = op_name(op.kind);
  R.st.ops++;
  std::vector<CallRec> trace;
  if (R.o.want_trace) T.ctx.trace = &trace;
  // while this operation is in flight (its thread may be parked inside it), other callers' memory
  // checks must not compare this instance's buffer with its mirror
  struct BusyGuard {
    Inst &i;
    explicit BusyGuard(Inst &x) : i(x) { i.busy = true; }
    ~BusyGuard() { i.busy = false; }
  } busy_guard(T.slots[op.slot & 3]);
  switch (op.kind) {
    case OP_CREATE: exec_create(R, T, ti, oi, op); break;
    case OP_DESTROY: exec_destroy(R, T, ti, oi, op); break;
    case OP_SETTER:
    case OP_CHUNK:
    case OP_OFFSET:
    case OP_DEBUG: exec_simple(R, T, ti, oi, op); break;
    case OP_ASM:
    case OP_COUNT:
    case OP_ASM_FILE:
    case OP_COUNT_FILE: exec_asm(R, T, ti, oi, op); break;
    case OP_BIN_FILE: exec_bin_file(R, T, ti, oi, op); break;
    case OP_EXEC: exec_exec(R, T, ti, oi, op); break;
    case OP_LAUNCH: exec_launch(R, ti, oi, op); break;
    case OP_REFILL: exec_refill(R, T, op); break;
    case OP_SABOTAGE: exec_sabotage(R, T, op); break;
  }
  T.ctx.trace = nullptr;
  if (R.o.want_trace && R.res) {
    R.res->traces.push_back(trace);
    R.res->trace_ops.emplace_back(ti, oi);
  }
  if (R.p->probe && !R.v.violated && (op.kind == OP_SETTER || op.kind == OP_CREATE || op.kind == OP_DESTROY)) probe_all(R, ti, oi, &op);
  if (R.o.verbose) {
    fprintf(real_out(), "  [t%d op%d] %-16s slot=%d -> event_hash=%016llx%s\n", ti, oi, op_name(op.kind), op.slot, (unsigned long long)R.task_eh[ti],
            R.v.violated ? "  ** VIOLATION **" : "");
  }
}

// ---- fine mode --------------------------------------------------------------------------------------------------------------
struct ThreadArg {
  Run *R;
  int ti;
};
static void *task_thread(void *p) {
  ThreadArg *a = (ThreadArg *)p;
  Run &R = *a->R;
  int ti = a->ti;
  sim_thread_begin();
  fine_task_enter(ti);
  const Task &t = R.p->tasks[ti];
  for (size_t oi = 0; oi < t.ops.size(); oi++) {
    if (R.v.violated) break;
    if (R.res && (size_t)ti < R.res->op_starts.size()) R.res->op_starts[(size_t)ti].push_back(fine_local_steps(ti));
    exec_op(R, ti, (int)oi);
    fine_op_boundary();
  }
  R.tasks[ti]->done = true;
  fine_task_exit();
  sim_thread_end();
  return nullptr;
}

static void prefetch_oracle(const Plan &p) {
  // the isolated-line oracle must not be computed while task threads can be preempted
  std::set<std::string> lines;
  for (auto &t : p.tasks)
    for (auto &op : t.ops)
      for (auto &l : op.lines) lines.insert(l);
  for (auto &f : p.world.files)
    for (auto &l : split_lines(f.data)) lines.insert(l);
  for (auto &l : lines)
    for (int o = 0; o < 12; o++) {
      enc(l, o);
      if (corpus_flags(l) & CF_RAX) enc_rax(l, o, nullptr);
    }
}

static void run_fine(Run &R) {
  const Plan &p = *R.p;
  int n = (int)p.tasks.size();
  prefetch_oracle(p);
  fine_reset(n);
  for (const Preempt &x : p.preempt)
    if (x.task >= 0 && x.task < n) fine_add_preempt(x.task, x.at, x.to);
  std::vector<pthread_t> th(n);
  std::vector<ThreadArg> args(n);
  if (R.res) R.res->op_starts.assign((size_t)n, std::vector<long>());
  for (int i = 0; i < n; i++) {
    args[i].R = &R;
    args[i].ti = i;
    pthread_create(&th[i], nullptr, task_thread, &args[i]);
  }
  fine_ctl_wait(n);
  fine_ctl_start(0);
  fine_ctl_wait(n + 1);
  for (int i = 0; i < n; i++) pthread_join(th[i], nullptr);
  R.st.switches = fine_switches();
  if (R.res) {
    R.res->task_steps.clear();
    for (int i = 0; i < n; i++) R.res->task_steps.push_back(fine_local_steps(i));
  }
  R.ev_global(fine_sched_hash());
}

// ---- entry ----------------------------------------------------------------------------------------------------------------------
static RunResult run_plan_once(const Plan &p, const RunOptions &o);

// Fine plans with preemptions are executed twice: first with every caller running alone (no
// preemption), then as planned.  Each caller must observe exactly the same in both (C18).
RunResult run_plan(const Plan &p, const RunOptions &o) {
  if (!(p.fine && !p.preempt.empty())) return run_plan_once(p, o);
  Plan q = p;
  q.preempt.clear();
  RunOptions qo = o;
  qo.verbose = false;
  RunResult ref = run_plan_once(q, qo);
  if (ref.v.violated) return ref;
  RunResult res = run_plan_once(p, o);
  res.st.ops += ref.st.ops;
  res.st.asm_checked += ref.st.asm_checked;
  res.st.steps += ref.st.steps;
  if (!res.v.violated) {
    for (size_t t = 0; t < p.tasks.size() && t < ref.task_hashes.size(); t++)
      if (res.task_hashes[t] != ref.task_hashes[t]) {
        res.v.violated = true;
        res.v.cls = "alone";
        res.v.task = (int)t;
        res.v.op = -1;
        res.v.op_kind = "schedule";
        res.v.detail = "caller task " + std::to_string(t) + " observed other bytes/offsets/return values under this interleaving than when running alone";
        res.v.in_scope = class_in_scope(p.prop, "alone", 0, true, false, 0, false, false);
        break;
      }
  }
  return res;
}

static RunResult run_plan_once(const Plan &p, const RunOptions &o) {
  RunResult res;
  Run R;
  R.p = &p;
  R.o = o;
  R.res = &res;
  sim_begin_run(p.world);
  for (size_t i = 0; i < p.tasks.size(); i++) R.tasks.push_back(new TaskRt());
  R.task_eh.assign(p.tasks.size() + 1, 0xcbf29ce484222325ULL);
  R.task_sh.assign(p.tasks.size() + 1, 0xcbf29ce484222325ULL);

  if (p.fine && p.tasks.size() >= 1) {
    run_fine(R);
  } else {
    size_t step = 0;
    for (;;) {
      if (R.v.violated) break;
      std::vector<int> runnable;
      for (size_t t = 0; t < p.tasks.size(); t++)
        if (R.tasks[t]->next < p.tasks[t].ops.size()) runnable.push_back((int)t);
      if (runnable.empty()) break;
      int pick = step < p.order.size() ? p.order[step] : (int)step;
      if (pick < 0) pick = -pick;
      int ti = runnable[pick % runnable.size()];
      step++;
      int oi = (int)R.tasks[ti]->next++;
      exec_op(R, ti, oi);
    }
  }
  g_cur_task = g_cur_op = -1;
  g_cur_op_kind = "";

  // end of run: destroy what is still alive (must not crash either), count leaks
  if (!R.v.violated) {
    for (size_t t = 0; t < R.tasks.size(); t++)
      for (Inst &I : R.tasks[t]->slots) {
        if (I.twin) {
          destroy_inst(R, *R.tasks[t], *I.twin);
          delete I.twin;
          I.twin = nullptr;
        }
        if (I.m.live && I.al) {
          int j = in_lib(R, R.tasks[t]->actx, [&] { lib::destroy(I.al); });
          I.al = nullptr;
          if (j != J_NONE) crashed(R, (int)t, -1, nullptr, R.tasks[t]->actx, j, &I);
        }
      }
    count_leaks();
  }
  for (TaskRt *t : R.tasks) {
    for (Inst &I : t->slots)
      if (I.twin) delete I.twin;
    delete t;
  }
  sim_end_run();
  res.v = R.v;
  uint64_t obs = 0xcbf29ce484222325ULL;
  for (uint64_t h : R.task_eh) {
    R.ev_global(h);
    obs = (obs ^ h) * 0x100000001b3ULL;
  }
  for (uint64_t h : R.task_sh) R.ev_global(h);
  res.obs_hash = obs;
  res.event_hash = R.eh;
  res.task_hashes = R.task_eh;
  res.st = R.st;
  res.nontrivial = R.st.asm_checked + R.st.probes + R.st.launches + R.st.bin_files > 0;
  return res;
}

}  // namespace sim
