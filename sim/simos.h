// The simulated operating system under the real AssemblyLine code.
//
// Every OS request the library (and asmline) makes reaches this layer first, through
// link-time --wrap seams (malloc/free/calloc, mmap/mremap/munmap, open/fstat/read/close,
// fopen/fwrite/fclose, exit, time) and through replaced stdio streams (stdin/stdout/stderr
// are fopencookie streams owned by the simulator).  What each call answers is decided by
// the plan being executed (environment answers attached to the current operation) and by
// the world configuration of the run; never by ambient state.
#pragma once
#include <setjmp.h>
#include <signal.h>
#include <stdint.h>
#include <stdio.h>
#include <string>
#include <vector>

namespace sim {

// ---- kinds of intercepted calls -------------------------------------------------------
enum CallKind {
  K_MALLOC = 0,
  K_CALLOC,
  K_FREE,
  K_MMAP_ANON,
  K_MMAP_FILE,
  K_MREMAP,
  K_MUNMAP,
  K_OPEN,
  K_FSTAT,
  K_CLOSE,
  K_READ,
  K_FOPEN,
  K_FWRITE,
  K_FCLOSE,
  K_CWRITE,  // write() issued by stdio underneath an output FILE
  K_OUT,     // write to the simulated stdout
  K_IN,      // read from the simulated stdin
  K_EXIT,
  K_TIME,
  K_LIBC,  // any other libc function called from real code: a preemption point only, never refused
  K_N
};
const char *call_name(int k);
int call_from_name(const std::string &s);

enum Ans { ANS_DEFAULT = 0, ANS_FAIL = 1, ANS_MOVE = 2, ANS_INPLACE = 3, ANS_SHORT = 4 };
const char *ans_name(int a);
int ans_from_name(const std::string &s);
const char *errno_name(int e);
int errno_from_name(const std::string &s);

// environment answer attached to an operation: "the nth call of this kind inside this op"
struct EnvAns {
  int call = 0;
  int nth = 0;
  int ans = ANS_DEFAULT;
  long arg = 0;
  int err = 0;
};

struct FileSpec {
  std::string path;
  std::string data;
  int kind = 0;  // 0 regular, 1 no permission (EACCES), 2 directory
};

struct World {
  int mem_policy = 0;  // mremap default: 0 in place, 1 always move, 2 coin per call (hash of salt)
  uint64_t salt = 0;
  int behind = 0;  // what follows a file mapping: 0 inaccessible, 1 non-zero garbage page, 2 zero page
  long step_budget = 20000000;
  long max_anon = 0;  // > 0: growth cap of one anonymous mapping in bytes (default: 4 MiB); only the giant programs of C08 raise it
  long sim_epoch = 1700000000;
  bool fd0_free = false;  // the caller closed stdin: the first descriptor the library opens is 0
  int fd_limit = 0;       // > 0: the process may hold at most this many descriptors of its own (RLIMIT_NOFILE); a process that
                          // closes what it opens never notices, one that leaks descriptors runs into EMFILE
  int sabotage = 0;  // canaries only: 1 = mremap moves but returns the stale address, 2 = output files lose their last byte
  std::vector<FileSpec> files;
};

struct CallRec {
  int call;
  int nth;
};

// jump codes delivered to the operation frame
enum { J_NONE = 0, J_FAULT = 1, J_HANG = 2, J_EXIT = 3 };

// Per-thread context of the operation currently inside real code.
struct OpCtx {
  sigjmp_buf jb;
  volatile int in_lib = 0;
  const std::vector<EnvAns> *env = nullptr;
  uint64_t op_uid = 0;
  int counts[K_N];
  int fired[K_N];
  int fired_total = 0;
  std::vector<CallRec> *trace = nullptr;  // when set, every intercepted call is recorded
  // fault report (J_FAULT)
  int fault_sig = 0;
  bool fault_write = false;
  bool fault_exec = false;
  uintptr_t fault_addr = 0;
  // J_EXIT
  int exit_status = 0;
  // bookkeeping for oracles
  long mremap_moves = 0;
  long mremap_calls = 0;
  long soft_faults = 0;  // legal-but-unusual answers that are not refusals (transient short writes)
  std::string sim_error;  // simulated kernel rejected a call as invalid (e.g. munmap with wrong length)
  void reset_op(const std::vector<EnvAns> *e, uint64_t uid);
};

// current thread's context (nullptr when the thread is not executing an operation)
OpCtx *cur_ctx();
void set_cur_ctx(OpCtx *c);

// Execute fn(arg) as real code: wrappers are live, faults/hangs/exit unwind to here.
// Returns J_NONE or the jump code.
int run_in_lib(OpCtx *c, void (*fn)(void *), void *arg, long step_budget);
// caller threads bracket their life with these (scopes ThreadSanitizer to library execution)
void process_reclaim();  // a simulated process ended: free its heap blocks, mappings, descriptors, streams
void sim_thread_begin();
void sim_thread_end();

// ---- arena / islands -------------------------------------------------------------------
enum IslandKind { IS_FREE = 0, IS_EXT, IS_ANON, IS_FILEMAP, IS_BEHIND };

struct Island {
  uint8_t *base = nullptr;  // page aligned
  size_t len = 0;           // accessible bytes (page multiple)
  size_t span = 0;          // room reserved for in-place growth
  int kind = IS_FREE;
  int prot = 0;
  // IS_EXT: the caller buffer inside the island
  uint8_t *user = nullptr;
  size_t user_len = 0;
  // IS_ANON / IS_FILEMAP: length the library asked for
  size_t req_len = 0;
  int id = 0;
  bool live = false;
};

void sim_init(bool fixed_arena);  // once per process
void sim_begin_run(const World &w);
void sim_end_run();
const World &world();

// caller-owned buffers (never touched by the fault plan)
// guard_side: 0 = inaccessible page directly behind the buffer, 1 = directly in front
// fill: 0x00, 0xFF, 0xCC, or -1 random from fillseed
int extbuf_new(size_t n, int guard_side, int fill, uint64_t fillseed);
uint8_t *extbuf_ptr(int id);
size_t extbuf_len(int id);
void extbuf_free(int id);
bool extbuf_canary_ok(int id, long *first_bad_delta);
// harness-side plain memory in the arena, readable/writable (text buffers handed to the library)
char *textbuf_new(const std::string &text, bool writable);

Island *island_of(const void *p);  // island whose accessible range contains p, or nullptr
// human-readable, pointer-free description of an address
std::string describe_addr(uintptr_t addr, const uint8_t *rel_base, size_t rel_len);
bool addr_in_arena(uintptr_t a);

// ---- files ------------------------------------------------------------------------------
struct SimFile {
  std::string path;
  std::string data;
  int kind = 0;
  bool written = false;  // created/truncated by fopen during the run
  long fopen_count = 0;
  int lock_excl = -1;    // flock: descriptor holding the exclusive lock
  int lock_shared = 0;   // flock: number of descriptors holding a shared lock
};
SimFile *file_lookup(const std::string &path);
const std::vector<SimFile> &files();
std::string heap_overrun_take();  // "" or a description of a heap block (allocated by real code) that was written past its end
bool path_writable(const std::string &path);  // would fopen(path, "w") succeed in the simulated file system

// ---- streams ----------------------------------------------------------------------------
void stdin_set(const std::string &data, const std::vector<int> &chunks);
std::string &stdout_capture();
void stdout_reset();
FILE *real_out();  // harness output (the process's real stdout)
FILE *real_err();

// ---- statistics ---------------------------------------------------------------------------
struct SimStats {
  long calls[K_N] = {0};
  long fired[K_N] = {0};
  long mremap_moves = 0;
  long mremap_inplace = 0;
  long leaks_blocks = 0;
  long leaks_maps = 0;
  long leaks_fds = 0;
  long sim_errors = 0;
  long stderr_bytes = 0;
  long short_reads = 0;
  long sabotage_applied = 0;  // canaries: how often the simulated mremap actually handed back a stale address
  long transient_short_writes = 0;
  long fd_limit_hits = 0;
};
SimStats &stats();
// resources still held by real code at this moment (for leak counting at end of run)
void count_leaks();

// coverage seam (sched.c)
extern "C" {
long sim_steps_now(void);
unsigned sim_edges_total(void);
unsigned sim_edges_hit(void);
}

}  // namespace sim
