// Oracle canaries (DESIGN 5.5): plans in which the simulator itself commits the sin the oracle is
// looking for.  Every canary must be flagged with the stated class, otherwise the check is broken
// (exit 2), never "passed".
#include "libcall.h"
#include "plan.h"

namespace sim {

typedef std::vector<std::pair<std::string, std::pair<Plan, std::string>>> CanaryList;

static Op mk(int kind, int slot, uint64_t uid) {
  Op o;
  o.kind = kind;
  o.slot = slot;
  o.uid = uid;
  return o;
}
static Op create(long n, uint64_t uid) {
  Op o = mk(OP_CREATE, 0, uid);
  o.n = n;
  return o;
}
static Op asm_lines(std::vector<std::string> l, uint64_t uid, int kind = OP_ASM, long c = 0) {
  Op o = mk(kind, 0, uid);
  o.lines = l;
  o.c = c;
  return o;
}
static Op sabotage(int sin, long k, uint64_t uid) {
  Op o = mk(OP_SABOTAGE, 0, uid);
  o.which = sin;
  o.k = k;
  return o;
}

void canary_plans(const std::string &prop, CanaryList &out) {
  auto base = [&](const char *) {
    Plan p;
    p.prop = prop;
    p.tasks.resize(1);
    return p;
  };
  {  // a byte just outside the caller buffer changes
    for (int guard = 0; guard < 2; guard++) {
      Plan p = base("outside");
      Op c = create(100, 1);
      c.guard = guard;
      p.tasks[0].ops = {c, asm_lines({"nop"}, 2), sabotage(1, 0, 3), asm_lines({"nop"}, 4)};
      out.push_back({guard ? "write_past_buffer_end" : "write_in_front_of_buffer", {p, "outside_write"}});
    }
  }
  {  // a byte below the start offset of a call changes
    Plan p = base("prefix");
    p.tasks[0].ops = {create(100, 1), asm_lines({"mov rcx, rdx", "add rcx, rdx", "ret"}, 2), sabotage(0, 1, 3), asm_lines({"nop"}, 4)};
    out.push_back({"flip_below_start_offset", {p, "prefix_modified"}});
  }
  {  // the text the library receives has one line more than the plan says: bytes/offset oracle
    Plan p = base("bytes");
    p.world.sabotage = 5;
    p.tasks[0].ops = {create(100, 1), asm_lines({"add rcx, rdx", "ret"}, 2)};
    out.push_back({"extra_line_in_text", {p, "bytes"}});
  }
  if (prop == "C15") {  // this process's library call sees another text than the plan says; a new process does not: new-process oracle
    Plan p = base("history");
    p.world.sabotage = 5;
    Op so = mk(OP_OFFSET, 0, 2);
    so.k = 4;
    p.tasks[0].ops = {create(100, 1), so, asm_lines({"add rcx, rdx", "ret"}, 3)};
    out.push_back({"differs_from_new_process", {p, "history"}});
  }
  if (prop == "C13" || prop == "C08" || prop == "C15" || prop == "C18") {  // the library gets another chunk size than the model
    Plan p = base("fit");
    p.world.sabotage = 3;
    Op ch = mk(OP_CHUNK, 0, 2);
    ch.c = 8;
    p.tasks[0].ops = {create(200, 1), ch, asm_lines({"nop5", "nop5", "nop5", "nop7", "nop3"}, 3)};
    out.push_back({"wrong_chunk_size", {p, "fit"}});
  }
  if (prop == "C14" || prop == "C08" || prop == "C15" || prop == "C18" || prop == "C19") {  // counting against another boundary
    Plan p = base("count");
    p.world.sabotage = 4;
    p.tasks[0].ops = {create(200, 1), asm_lines({"nop5", "nop5", "nop5", "nop5", "nop5"}, 2, OP_COUNT, 8)};
    out.push_back({"wrong_count_boundary", {p, "count"}});
  }
  if (prop == "C12") {  // an option changes behind the model's back
    Plan p = base("options");
    p.probe = true;
    Op s = mk(OP_SETTER, 0, 3);
    s.which = lib::S_SIB;
    s.value = 77;
    p.tasks[0].ops = {create(128, 1), sabotage(2, 0, 2), s};
    out.push_back({"option_changed_behind_model", {p, "options"}});
  }
  if (prop == "C08" || prop == "C17") {  // mremap moves the mapping but hands back the stale address
    Plan p = base("stale");
    p.world.sabotage = 1;
    p.world.mem_policy = 1;
    std::vector<std::string> big(900, "mov rcx, 0x1122334455667788");
    p.tasks[0].ops = {create(-1, 1), asm_lines(big, 2)};
    out.push_back({"stale_mremap_address", {p, "outside_write|crash|sim_reject|code_ptr"}});
  }
  if (prop == "C17" || prop == "C19" || prop == "C20") {  // the written file lacks its last byte
    Plan p = base("file");
    p.world.sabotage = 2;
    Op b = mk(OP_BIN_FILE, 0, 3);
    b.path = "/sim/out.bin";
    p.tasks[0].ops = {create(100, 1), asm_lines({"mov rcx, rdx", "ret"}, 2), b};
    out.push_back({"output_file_loses_last_byte", {p, "file_content"}});
  }
}

}  // namespace sim
