// Seeded PRNG for the simulator: splitmix64 seeding xoshiro256**.
// One integer (VERIF_SEED) + property + run index -> one run.  Nothing in here
// reads a clock or any other ambient state.
#pragma once
#include <cstdint>
#include <cstddef>
#include <string>
#include <vector>

namespace sim {

static inline uint64_t splitmix64(uint64_t &x) {
  uint64_t z = (x += 0x9e3779b97f4a7c15ULL);
  z = (z ^ (z >> 30)) * 0xbf58476d1ce4e5b9ULL;
  z = (z ^ (z >> 27)) * 0x94d049bb133111ebULL;
  return z ^ (z >> 31);
}

static inline uint64_t mix64(uint64_t a, uint64_t b) {
  uint64_t x = a * 0x9e3779b97f4a7c15ULL ^ (b + 0x632be59bd9b4e019ULL);
  return splitmix64(x);
}

static inline uint64_t fnv1a(const void *p, size_t n, uint64_t h = 0xcbf29ce484222325ULL) {
  const unsigned char *s = (const unsigned char *)p;
  for (size_t i = 0; i < n; i++) {
    h ^= s[i];
    h *= 0x100000001b3ULL;
  }
  return h;
}
static inline uint64_t fnv1a(const std::string &s, uint64_t h = 0xcbf29ce484222325ULL) {
  return fnv1a(s.data(), s.size(), h);
}

struct Rng {
  uint64_t s[4];
  explicit Rng(uint64_t seed = 1) { reseed(seed); }
  void reseed(uint64_t seed) {
    uint64_t x = seed;
    for (int i = 0; i < 4; i++) s[i] = splitmix64(x);
  }
  static inline uint64_t rotl(uint64_t x, int k) { return (x << k) | (x >> (64 - k)); }
  uint64_t next() {
    const uint64_t result = rotl(s[1] * 5, 7) * 9;
    const uint64_t t = s[1] << 17;
    s[2] ^= s[0];
    s[3] ^= s[1];
    s[1] ^= s[2];
    s[0] ^= s[3];
    s[2] ^= t;
    s[3] = rotl(s[3], 45);
    return result;
  }
  // uniform in [0, n)   (n > 0)
  uint64_t below(uint64_t n) { return n ? next() % n : 0; }
  // uniform in [lo, hi]
  long range(long lo, long hi) { return hi <= lo ? lo : lo + (long)below((uint64_t)(hi - lo + 1)); }
  bool chance(unsigned num, unsigned den) { return below(den) < num; }
  bool coin() { return next() & 1; }
  // geometric-ish length in [lo, hi] with mean around lo + (hi-lo)/k
  long geom(long lo, long hi, unsigned stop_den) {
    long v = lo;
    while (v < hi && !chance(1, stop_den)) v++;
    return v;
  }
  template <class T> const T &pick(const std::vector<T> &v) {
    static const T none = T();
    if (v.empty()) return none;  // degenerate pools (a tree that rejects most of the corpus) must not crash the harness
    return v[below(v.size())];
  }
  // labelled sub-stream: independent generator derived from this one's seed material
  Rng fork(uint64_t label) const { return Rng(mix64(s[0] ^ rotl(s[2], 13), label)); }
};

}  // namespace sim
